#!/bin/bash
# run_all_seeds.sh [ids...] : the recorded runs of every seeded change against /repo itself (one after the other; /repo is restored after each).
HERE=$(cd "$(dirname "$0")" && pwd)
declare -A P=( [a1]="C02" [a2]="C05" [a3]="C01 C02 C08" [b1]="C03 C05" [b2]="C04" [b3]="C04 C14" [c1]="C05" [c2]="C06" [c3]="C05"
  [d1]="C07" [d2]="C08" [d3]="C16" [e1]="C13" [e2]="C14" [e3]="C14" [f1]="C15" [f2]="C15" [f3]="C17"
  [g1]="C10" [g2]="C11" [g3]="C11" [h1]="C18" [h2]="C18" [h3]="C19" [i1]="C15 C03" [i2]="C06" [i3]="C14"
  [j1]="C10" [j2]="C13" [j3]="C16" [k1]="C02" [k2]="C04 C03" [k3]="C07" [l1]="C17" [l2]="C18" [l3]="C11"
  [m1]="C09" [m2]="C08 C15" [m3]="C19" [n1]="C05" [n2]="C03 C02" [n3]="C06 C05" [o1]="C13" [o2]="C16" [o3]="C14 C06"
  [p1]="C10" [p2]="C11" [p3]="C18" [q1]="C01 C05" [q2]="C09" [q3]="C19" [r1]="C02" [r2]="C15 C05" [r3]="C07 C15"
  [s1]="C03" [s2]="C08" [s3]="C16" [t1]="C13" [t2]="C14 C13" [t3]="C17" [u1]="C04" [u2]="C05" [u3]="C06"
  [v1]="C08 C05" [v2]="C15" [v3]="C17" [w1]="C05" [w2]="C06" [w3]="C13" [x1]="C01 C02 C05" [x2]="C04" [x3]="C14" )
IDS="$@"; [ -z "$IDS" ] && IDS=$(echo "${!P[@]}" | tr ' ' '\n' | sort)
for id in $IDS; do "$HERE/run_seed_on_repo.sh" $id ${P[$id]}; done
echo ALLSEEDSDONE
