"""sf.py - obligations that are not harness files: the C19 guard extraction (CBMC) and the C19 macro-prefix fact."""
import os, sys, re, json, subprocess, tempfile, time, shutil
HERE = os.path.dirname(os.path.dirname(os.path.abspath(__file__)))
sys.path.insert(0, os.path.join(HERE, 'tools')); sys.path.insert(0, os.path.join(HERE, 'specs'))
import vp

def _res(o, **kw):
    r = {'name': o['name'], 'kind': o['kind'], 'props': o['props'], 'status': 'undecided', 'failed': [], 'secs': 0.0, 'detail': '', 'bound': o.get('bound'),
         'n_checks': 0, 'reach': [], 'functions': [], 'enforce': None, 'replace': []}
    r.update(kw); return r

def run_guards(o, tier):
    t0 = time.time()
    try:
        import guards, c19_oracle
        from lower import get_index
        ast, key = vp.ensure_ast()
        idx = get_index(ast)
        try:
            src, n = guards.generate(idx, vp.REPO, c19_oracle.ORACLE)
        except guards.Break as b:
            return _res(o, detail='extraction break: %s' % b, secs=round(time.time() - t0, 2))
        wd = tempfile.mkdtemp(prefix='vp-guards-')
        try:
            cf = os.path.join(wd, 'guards.c'); open(cf, 'w').write(src)
            rc, out, err, _ = vp.run(['goto-cc', cf, '-o', os.path.join(wd, 'g.gb')], 120)
            if rc != 0: return _res(o, detail='goto-cc failed: ' + (err or out)[-1500:], secs=round(time.time() - t0, 2))
            rc, out, err, secs = vp.run(['cbmc', os.path.join(wd, 'g.gb'), '--json-ui'], 600)
            msgs = json.loads(out)
            checks = None
            for m in msgs:
                if 'result' in m: checks = m['result']
            if checks is None: return _res(o, detail='cbmc produced no result', secs=round(time.time() - t0, 2))
            failed = []; reach = 0
            for ch in checks:
                d = ch.get('description', '')
                if d.startswith('REACH'):
                    if ch['status'] != 'FAILURE': return _res(o, detail='vacuity: %s' % d)
                    reach += 1; continue
                if ch['status'] == 'FAILURE': failed.append({'property': ch.get('property'), 'description': d, 'loc': {}})
            os.makedirs(os.path.join(vp.CACHE), exist_ok=True)
            shutil.copy(cf, os.path.join(vp.CACHE, 'guards.c'))
            return _res(o, status='fail' if failed else 'pass', failed=failed, n_checks=len(checks), secs=round(time.time() - t0, 2),
                        reach=[{'description': 'REACH! guards.end', 'reached': True}], cbmc_cmd='cbmc guards.gb', gb=None,
                        functions=[{'name': '%s::%s' % (r, f), 'mangled': 'guards:%s::%s' % (r, f)} for a, r, f in guards.TARGETS])
        finally:
            shutil.rmtree(wd, ignore_errors=True)
    except Exception as e:
        return _res(o, detail='tool error: %r' % e, secs=round(time.time() - t0, 2))

def run_macros(o, tier):
    """With TROMPELOEIL_LONG_MACROS defined, every macro #defined by a file under /repo/include/trompeloeil* starts
    with TROMPELOEIL_.  Exact: g++ -E -dD keeps #define lines in place between line markers, so each definition is
    attributed to its defining file."""
    t0 = time.time()
    stds = ['c++14'] + (['c++17', 'c++20'] if tier == 'thorough' else [])
    failed = []; total = 0; detail = ''
    for std in stds:
        r = subprocess.run(['g++', '-std=' + std, '-E', '-dD', '-DTROMPELOEIL_LONG_MACROS', '-I' + os.path.join(vp.REPO, 'include'), '-include', 'trompeloeil.hpp', '-x', 'c++', '/dev/null'],
                           capture_output=True, text=True)
        if r.returncode != 0: return _res(o, detail='preprocessor failed: ' + r.stderr[-1000:], secs=round(time.time() - t0, 2))
        cur = ''
        inc = os.path.realpath(os.path.join(vp.REPO, 'include'))
        for line in r.stdout.split('\n'):
            m = re.match(r'^# \d+ "([^"]*)"', line)
            if m: cur = m.group(1); continue
            m = re.match(r'^#define\s+(\w+)', line)
            if m and cur and os.path.realpath(cur).startswith(inc):
                total += 1
                if not m.group(1).startswith('TROMPELOEIL_'):
                    failed.append({'property': 'macros.%s.%s' % (std, m.group(1)), 'description': '[C19] MACRO %s defined by %s under TROMPELOEIL_LONG_MACROS (-std=%s)' % (m.group(1), os.path.relpath(cur, inc), std), 'loc': {}})
    if total < 100: return _res(o, detail='vacuity: only %d macro definitions attributed to /repo/include' % total, secs=round(time.time() - t0, 2))
    return _res(o, status='fail' if failed else 'pass', failed=failed, n_checks=total, secs=round(time.time() - t0, 2),
                reach=[{'description': 'REACH! macros: %d definitions attributed' % total, 'reached': True}], cbmc_cmd='g++ -E -dD -DTROMPELOEIL_LONG_MACROS')


def run_forms(o, tier):
    """C19: each listed illegal expectation form is refused by the compiler with the documented message, each listed legal form
    compiles (g++ -fsyntax-only against /repo/include).  A compile-time property of a form has no inputs: the answer for a listed
    form is exact for the compiler and language level used."""
    t0 = time.time()
    import importlib, c19_forms
    importlib.reload(c19_forms)
    from concurrent.futures import ThreadPoolExecutor
    stds = ['c++14'] + (['c++17'] if tier == 'thorough' else [])
    wd = tempfile.mkdtemp(prefix='vp-forms-')
    try:
        jobs = [(std, kind, it) for std in stds for kind, lst in (('illegal', c19_forms.ILLEGAL), ('legal', c19_forms.LEGAL)) for it in lst]
        def comp(job):
            std, kind, it = job
            src = os.path.join(wd, '%s_%s_%s.cpp' % (std.replace('+', 'p'), kind, it[0])); open(src, 'w').write(c19_forms.HEAD % it[1])
            try:
                r = subprocess.run(['g++', '-std=' + std, '-fsyntax-only', '-I' + os.path.join(vp.REPO, 'include'), src], capture_output=True, text=True, timeout=300)
                return job, r.returncode, r.stderr
            except subprocess.TimeoutExpired:
                return job, None, 'timeout'
        failed = []; n = 0
        with ThreadPoolExecutor(max_workers=min(8, vp.JOBS)) as ex:
            for (std, kind, it), rc, err in ex.map(comp, jobs):
                n += 1
                if rc is None: return _res(o, detail='compiler timeout on form %s' % it[0], secs=round(time.time() - t0, 2))
                if kind == 'legal' and rc != 0:
                    first = [l for l in err.split('\n') if 'error' in l][:1]
                    failed.append({'property': 'forms.%s.legal.%s' % (std, it[0]), 'description': '[C19] FORM legal form is refused: %s  (%s)' % (it[1], (first[0] if first else '')[-160:]), 'loc': {}})
                if kind == 'illegal' and rc == 0:
                    failed.append({'property': 'forms.%s.illegal.%s' % (std, it[0]), 'description': '[C19] FORM misuse compiles: %s  (documented: %s)' % (it[1], it[2]), 'loc': {}})
                if kind == 'illegal' and rc != 0 and it[2] not in err:
                    failed.append({'property': 'forms.%s.message.%s' % (std, it[0]), 'description': '[C19] FORM misuse is refused without the documented message "%s": %s' % (it[2], it[1]), 'loc': {}})
        if n < 30: return _res(o, detail='vacuity: only %d forms compiled' % n, secs=round(time.time() - t0, 2))
        return _res(o, status='fail' if failed else 'pass', failed=failed, n_checks=n, secs=round(time.time() - t0, 2),
                    reach=[{'description': 'REACH! forms: %d compiled' % n, 'reached': True}], cbmc_cmd='g++ -fsyntax-only (one translation unit per form)')
    except Exception as e:
        return _res(o, detail='tool error: %r' % e, secs=round(time.time() - t0, 2))
    finally:
        shutil.rmtree(wd, ignore_errors=True)
