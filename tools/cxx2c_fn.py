#!/usr/bin/env python3
"""cxx2c part 2: the lowering proper (types -> C types, records -> structs,
functions/statements/expressions -> C in A-normal form with explicit exception
flag, destructor calls at scope exits, virtual dispatch through ghost tags)."""
import re, sys, json
from cxx2c import *

SIMPLE_RE = re.compile(r'^(\(?[A-Za-z_][A-Za-z0-9_]*\)?|-?\d+[UL]*|self|\(\*[A-Za-z_][A-Za-z0-9_]*\)|&[A-Za-z_][A-Za-z0-9_]*)$')

class Scope:
    def __init__(self, kind):
        self.kind = kind          # 'fn' | 'block' | 'loop' | 'switch' | 'try'
        self.dtors = []           # list of C statements (strings), in declaration order
        self.handler = None       # for 'try': label of the catch dispatch
        self.cont_label = None    # for 'loop'

class Lower:
    def __init__(self, idx, cfg):
        self.idx = idx
        self.cfg = cfg
        self.opaque = [re.compile(r) for r in cfg.get('opaque', [])]
        self.dyn_types = [re.compile(r) for r in cfg.get('dyn_types', [])]
        self.ghost_fields = [(re.compile(k), v) for k, v in cfg.get('ghost_fields', {}).items()]
        self.emitted_recs = {}      # rec id -> cname
        self.rec_defs = []          # struct definitions in dependency order
        self.rec_fwd = []
        self.aux_structs = {}       # cname -> definition (tuples, arrays, ...)
        self.fn_names = {}          # defn id -> cname
        self.worklist = []
        self.protos = []
        self.bodies = []
        self.stubs = {}             # cname -> prototype (functions without body: opaque/virtual default/external)
        self.dispatchers = {}       # cname -> (method decl, static rec)
        self.complete_dtors = {}    # rec id -> cname (queued)
        self.deleters = {}
        self.fn_erasure = {}        # std::function signature -> [(closure record, call operator, C name)]
        self.fn_dispatch_names = {}
        self.tags = {}              # cname -> int
        self.static_asserts = []
        self.lambda_caps = {}       # closure record id -> {captured decl id: (field name, by_reference)}
        self.used_cnames = {}
        self.stats = {'node_kinds': {}, 'functions': [], 'std_models': set(), 'externals': set()}
        # a parameter of type std::unique_ptr<T> passed BY VALUE is one object, created by the caller and seen by the callee (Itanium ABI:
        # the caller builds the temporary, passes its address and destroys it after the call).  C by-value passing would give the callee a
        # second copy of the pointer, so a move out of the parameter would not be seen by the caller's temporary.  Such parameters are
        # lowered as if declared `std::unique_ptr<T> &&` (address of the caller's temporary).
        if not getattr(idx, '_vp_uptr_params_rewritten', False):
            for n in idx.by_id.values():
                if isinstance(n, dict) and n.get('kind') == 'ParmVarDecl' and isinstance(n.get('type'), dict):
                    q = (n['type'].get('desugaredQualType') or n['type'].get('qualType') or '').strip()
                    if re.match(r'^(const )?std::unique_ptr<.*>$', q):
                        n['type'] = {'qualType': q + ' &&'}; n['_vp_byvalue_uptr'] = True
            idx._vp_uptr_params_rewritten = True

    # ------------------------------------------------------------------ types
    def tparse(self, q):
        q = q.strip()
        changed = True
        while changed:
            changed = False
            for suf in (' const', ' volatile', ' __restrict'):
                if q.endswith(suf): q = q[:-len(suf)].strip(); changed = True
            if q.endswith('*const'): q = q[:-5].strip(); changed = True
            if q.startswith('const (lambda'): q = q[6:].strip(); changed = True
        if q.endswith('&&'): return ('ref', q[:-2].strip())
        if q.endswith('&'): return ('ref', q[:-1].strip())
        if q.endswith('*'): return ('ptr', q[:-1].strip())
        m = re.match(r'^(.*?)\(?(&&|&|\*)\)?\[(\d+)\]$', q)
        if m: return ('ref' if m.group(2) != '*' else 'ptr', '%s[%s]' % (m.group(1).strip(), m.group(3)))
        m = re.match(r'^(.*)\[(\d+)\]$', q)
        if m: return ('array', m.group(1).strip(), int(m.group(2)))
        m = re.match(r'^\(lambda at .*:(\d+):(\d+)\)$', q)
        if m:
            cands = self.idx.lambda_by_pos.get((int(m.group(1)), int(m.group(2))), [])
            if not cands:   # clang omits the line in a loc when it equals the previous one: match on column only
                cands = [r for (l, c), rs in self.idx.lambda_by_pos.items() if c == int(m.group(2)) and l is None for r in rs]
            if len(cands) > 1 and getattr(self, 'cur_fn', None) is not None:
                # one closure record per instantiation of the enclosing template: take the one inside the function being lowered
                def inside(rec, fn):
                    p = self.idx.parent.get(rec['id'])
                    while p is not None:
                        if p.get('id') == fn.get('id'): return True
                        p = self.idx.parent.get(p['id']) if 'id' in p else None
                    return False
                mine = [r for r in cands if inside(r, self.cur_fn)]
                if not mine:
                    encl = self.rec_of_method(self.cur_fn) if self.cur_fn.get('kind') in FUNC_KINDS else None
                    mine = [r for r in cands if encl is not None and r['id'] == encl['id']]
                if mine: cands = mine
            if len(cands) >= 1: return ('rec', cands[0])
            raise Unsupported('closure type %s not found' % q)
        if q.endswith(')'):
            return ('func', q)
        n = norm(q)
        return self.tnamed(n, q)

    def tnamed(self, n, q, depth=0):
        if n in BUILTIN: return ('builtin', BUILTIN[n])
        if n in self.idx.enum_by_name or n in ('severity',): return ('builtin', 'int')
        rec = self.idx.rec_by_name.get(n)
        if rec is not None: return ('rec', rec)
        m = re.match(r'^(?:std::)?unique_ptr<(.*)>::pointer$', n)
        if m:
            return ('ptr', split_top(m.group(1))[0])
        m = re.match(r'^(?:std::)?unique_ptr<(.*)>$', n)
        if m:
            return ('uptr', split_top(m.group(1))[0])
        m = re.match(r'^(?:std::)?array<(.*)>::(value_type|iterator|const_iterator|pointer|const_pointer|reference|const_reference)$', n)
        if m:
            a = split_top(m.group(1))
            return ('alias', a[0]) if m.group(2) == 'value_type' else ('ptr', a[0])
        m = re.match(r'^(?:std::)?array<(.*)>$', n)
        if m:
            a = split_top(m.group(1))
            return ('stdarray', a[0], int(re.sub(r'[UuLl]+$', '', a[1])))
        m = re.match(r'^(?:std::)?tuple<(.*)>$', n)
        if m:
            return ('tuple', split_top(m.group(1)) if m.group(1) else [])
        m = re.match(r'^(?:std::)?reference_wrapper<(.*)>$', n)
        if m: return ('refw', m.group(1))
        m = re.match(r'^(?:std::)?pair<(.*)>$', n)
        if m: return ('pair', split_top(m.group(1)))
        m = re.match(r'^(?:std::)?initializer_list<(.*)>$', n)
        if m: return ('initlist', m.group(1))
        m = re.match(r'^(?:std::)?integral_constant<(.*)>$', n)
        if m or n in ('std::true_type', 'std::false_type', 'true_type', 'false_type'): return ('model', 'struct vp_empty')
        if re.match(r'^std::is_array<.*>$', n): return ('model', 'struct vp_empty')   # empty tag classes
        m = re.match(r'^(?:std::|detail::)*(index_sequence|integer_sequence|make_index_sequence)<(.*)>$', n)
        if m: return ('model', 'struct vp_empty')
        if self.cfg.get('erase_functions'):
            # std::function as a tagged closure object, std::vector as a fixed-capacity array (trusted models, DESIGN 2.1)
            m = re.match(r'^(?:std::)?function<(.*)>$', n)
            if m: return ('fnobj', m.group(1))
            m = re.match(r'^(?:std::)?vector<(.*)>::(iterator|const_iterator|pointer|const_pointer|reference|const_reference|value_type)$', n)
            if m:
                a = split_top(m.group(1))
                return ('alias', a[0]) if m.group(2) in ('value_type', 'reference', 'const_reference') else ('ptr', a[0])
            m = re.match(r'^(?:std::)?vector<(.*)>$', n)
            if m: return ('vec', split_top(m.group(1))[0])
            m = re.match(r'^(?:__gnu_cxx::)?__normal_iterator<(.*)>(::reference)?$', n)
            if m:
                a = split_top(m.group(1))
                if a[0].endswith('*'): return ('alias', a[0][:-1]) if m.group(2) else ('ptr', a[0][:-1])
            m = re.match(r'^__gnu_cxx::__alloc_traits<.*,(.*)>::value_type$', n)
            if m: return ('alias', m.group(1))
        for pat, c in STD_MODELS:
            if re.match(pat, n):
                self.stats['std_models'].add(c)
                return ('model', c)
        r = self.idx.resolve(n)
        if r != n and depth < 5:
            t = self.tparse_norm(r)
            if t is not None: return t
        if depth < 5:
            # spellings clang uses for the same specialisation: size_t(-1) as -1 / 18446744073709551615, tuple with and without std::
            for a, b in (('18446744073709551615', '-1'), (',tuple<', ',std::tuple<'), ('<tuple<', '<std::tuple<')):
                if a in n:
                    rec = self.idx.rec_by_name.get(n.replace(a, b))
                    if rec is not None: return ('rec', rec)
        if depth < 5 and re.search(r'\b(true|false)\b', n):
            # bool template arguments: clang names the specialisation with 0 / 1, type strings spell false / true
            r2 = self.idx.rec_by_name.get(re.sub(r'\bfalse\b', '0', re.sub(r'\btrue\b', '1', n)))
            if r2 is not None: return ('rec', r2)
        if depth < 5 and '<' in n:
            # a specialisation spelled from inside a namespace (clang prints template arguments as written there): match on the
            # names with every namespace qualifier removed, unique match only
            # (driver types are indexed as vp_<name> with the namespace folded in; inside the driver's namespace clang spells <name>)
            unq = lambda x: re.sub(r'\bvp_vp_', 'vp_', re.sub(r'\b(?:\w+::)+', '', x))
            bare = unq(n)
            if not hasattr(self.idx, 'bare_names'):
                bn = {}
                for k, r in self.idx.rec_by_name.items():
                    if k.startswith('vp_') or k.startswith('anon_'): continue
                    bn.setdefault(unq(k), {})[r['id']] = r
                self.idx.bare_names = bn
            cands = self.idx.bare_names.get(bare, {})
            if len(cands) == 1: return ('rec', list(cands.values())[0])
        m = re.match(r'^((?:\w+::)*\w+)_t<(.*)>$', n)
        if m and depth < 5:
            # alias template X_t<Args> = typename X<Args>::type: read the member alias `type` of the specialisation X<Args> from the AST
            rec = self.idx.rec_by_name.get('%s<%s>' % (m.group(1), m.group(2)))
            if rec is not None:
                al = [x for x in rec.get('inner', []) if x.get('kind') in ('TypeAliasDecl', 'TypedefDecl') and x.get('name') == 'type']
                if len(al) == 1:
                    return self.tparse(al[0]['type'].get('desugaredQualType') or al[0]['type']['qualType'])
        if depth < 5 and n.endswith('>') and '<' in n:
            # trailing template arguments left to a default that names an earlier parameter (multiplicity<0> = multiplicity<0,0>)
            head = n[:n.index('<')]; args = split_top(n[n.index('<') + 1:-1])
            pd = self.idx.tmpl_param_defaults.get(head.split('::')[-1], {})
            while len(args) in pd and pd[len(args)] < len(args): args.append(args[pd[len(args)]])
            rec = self.idx.rec_by_name.get('%s<%s>' % (head, ','.join(args)))
            if rec is not None: return ('rec', rec)
        raise Unsupported('type: %s' % q)

    def tparse_norm(self, n):
        # n is normalised (no spaces); re-run the suffix logic on it
        if n.endswith('&&'): return ('ref', n[:-2])
        if n.endswith('&'): return ('ref', n[:-1])
        if n.endswith('*'): return ('ptr', n[:-1])
        return self.tnamed(n, n, 1)

    def tinfo(self, ty):
        q = qt(ty) if isinstance(ty, dict) else ty
        try:
            return self.tparse(q)
        except Unsupported:
            if isinstance(ty, dict) and ty.get('qualType') and ty.get('qualType') != q:
                return self.tparse(ty['qualType'])
            raise

    def ctype(self, ty):
        return self.ctype_of(self.tinfo(ty))

    def ctype_of(self, t):
        k = t[0]
        if k == 'builtin' or k == 'model': return t[1]
        if k in ('ref', 'ptr', 'uptr'):
            try:
                inner = self.ctype(t[1])
            except Unsupported:
                if k == 'ptr' or k == 'ref':
                    ti = None
                    try: ti = self.tparse(t[1])
                    except Unsupported: pass
                    if ti is not None and ti[0] == 'func': return 'void *'
                raise
            return inner + ' *'
        if k == 'alias': return self.ctype(t[1])
        if k == 'rec': return 'struct ' + self.need_rec(t[1])
        if k == 'func': return 'void'
        if k == 'array':
            # a C++ array object handled by reference/value outside a record: wrapped, so that T(&)[N] is a pointer
            et = self.ctype(t[1]); cnt = t[2]
            nm = 'vp_carr_' + sanitize(et.replace('*', 'p')) + '_%d' % cnt
            if nm not in self.aux_structs:
                self.aux_structs[nm] = ('carr', t[1], cnt)
                self.rec_defs.append('struct %s { %s a[%d]; };' % (nm, et, max(cnt, 1)))
            return 'struct ' + nm
        if k == 'stdarray':
            et = self.ctype(t[1]); cnt = t[2]
            nm = 'vp_array_' + sanitize(et.replace('*', 'p')) + '_%d' % cnt
            if nm not in self.aux_structs:
                self.aux_structs[nm] = None
                self.rec_defs.append('struct %s { %s e[%d]; };' % (nm, et, max(cnt, 1)))
                self.aux_structs[nm] = ('stdarray', t[1], cnt)
            return 'struct ' + nm
        if k == 'tuple':
            els = t[1]
            nm = 'vp_tuple_' + (sanitize('_'.join(self.ctype(e).replace('struct ', '').replace('*', 'p') for e in els)) or 'empty')
            if nm not in self.aux_structs:
                self.aux_structs[nm] = ('tuple', els)
                fl = []
                for i, e in enumerate(els):
                    fl.append('  %s _%d;' % (self.ctype(e), i))
                if not fl: fl = ['  char _empty;']
                self.rec_defs.append('struct %s {\n%s\n};' % (nm, '\n'.join(fl)))
            return 'struct ' + nm
        if k == 'refw':
            inner = self.ctype(t[1])
            nm = 'vp_refw_' + sanitize(inner.replace('*', 'p'))
            if nm not in self.aux_structs:
                self.aux_structs[nm] = ('refw', t[1])
                self.rec_defs.append('struct %s { %s * p; };' % (nm, inner))
            return 'struct ' + nm
        if k == 'pair':
            a, b = t[1]
            nm = 'vp_pair_' + sanitize((self.ctype(a) + '_' + self.ctype(b)).replace('struct ', '').replace('*', 'p'))
            if nm not in self.aux_structs:
                self.aux_structs[nm] = ('pair', a, b)
                self.rec_defs.append('struct %s { %s first; %s second; };' % (nm, self.ctype(a), self.ctype(b)))
            return 'struct ' + nm
        if k == 'fnobj':
            return 'struct vp_fnobj'
        if k == 'vec':
            et = self.ctype(t[1])
            nm = 'vp_vec_' + sanitize(et.replace('struct ', '').replace('*', 'p'))
            if nm not in self.aux_structs:
                self.aux_structs[nm] = ('vec', t[1])
                self.rec_defs.append('struct %s { %s a[VP_VEC_CAP]; unsigned long n; };' % (nm, et))
            return 'struct ' + nm
        if k == 'initlist':
            return 'struct vp_initlist'
        raise Unsupported('ctype of %s' % (t,))

    def is_ref(self, ty):
        try: return self.tinfo(ty)[0] == 'ref'
        except Unsupported:
            return (qt(ty) if isinstance(ty, dict) else ty).strip().endswith('&')

    def deref_t(self, ty):
        """type info with a top-level reference removed"""
        t = self.tinfo(ty)
        if t[0] == 'ref': t = self.tparse(t[1])
        while t[0] == 'alias': t = self.tparse(t[1])
        return t

    # ---------------------------------------------------------------- records
    def rec_cname(self, rec):
        if rec['id'] in self.emitted_recs: return self.emitted_recs[rec['id']]
        names = [n for n in self.idx.rec_names(rec) if not n.startswith('anon_')]
        if names:
            nm = sorted(names, key=lambda s: (len(s), s))[0]
            c = 'S_' + sanitize(nm)
        else:
            loc = rec.get('loc', {})
            c = 'S_closure_L%s_C%s' % (loc.get('line', loc.get('expansionLoc', {}).get('line', 'x')), loc.get('col', 'x'))
        if c in self.used_cnames and self.used_cnames[c] != rec['id']:
            c += '_' + hashlib.md5(rec['id'].encode()).hexdigest()[:6]
        self.used_cnames[c] = rec['id']
        return c

    def tag_of(self, cname):
        if cname not in self.tags: self.tags[cname] = len(self.tags) + 1
        return 'VP_TAG_' + cname

    def need_rec(self, rec):
        if rec['id'] in self.emitted_recs: return self.emitted_recs[rec['id']]
        cname = self.rec_cname(rec)
        self.emitted_recs[rec['id']] = cname
        self.rec_fwd.append('struct %s;' % cname)
        lines = []
        has_poly_base = False
        for k, (b, br) in enumerate(self.idx.bases(rec)):
            if br is None:
                t = self.tinfo(b['type'])
                lines.append('  %s _b%d;' % (self.ctype_of(t), k))
                continue
            if self.idx.is_polymorphic(br): has_poly_base = True
            lines.append('  struct %s _b%d;' % (self.need_rec(br), k))
        if self.idx.is_polymorphic(rec): self.tag_of(cname)
        if self.idx.is_polymorphic(rec) and not has_poly_base:
            lines.append('  int vp_tag;')
        cap_inits = None
        if rec.get('definitionData', {}).get('isLambda'):
            le = self.idx.parent.get(rec['id'])
            if le is not None and le.get('kind') == 'LambdaExpr': cap_inits = [c for c in le['inner'][1:] if c.get('kind') != 'CompoundStmt']
        for fk, f in enumerate(self.idx.fields(rec)):
            fty = f['type']
            if cap_inits is not None and fk < len(cap_inits) and 'decltype(' in qt(fty) and not fty.get('desugaredQualType'):
                # capture of a variable declared `auto x = ...`: clang spells the field type as decltype(...); take the variable's type
                src = cap_inits[fk]
                while src.get('kind') != 'DeclRefExpr' and len(src.get('inner', [])) == 1: src = src['inner'][0]
                vd = self.idx.by_id.get((src.get('referencedDecl') or {}).get('id')) if src.get('kind') == 'DeclRefExpr' else None
                if vd is not None and vd.get('type'):
                    base = qt(vd['type'])
                    fty = {'qualType': base + (' &' if qt(f['type']).rstrip().endswith('&') else '')}
            t = self.tinfo(fty)
            nm = f.get('name') or ('_c%d' % fk)      # unnamed fields: lambda captures, by position
            if t[0] == 'array':
                lines.append('  %s %s[%d];' % (self.ctype(t[1]), nm, t[2]))
            else:
                lines.append('  %s %s;' % (self.ctype_of(t), nm))
        names = self.idx.rec_names(rec)
        for pat, decls in self.ghost_fields:
            if any(pat.search(n) for n in names):
                for d in decls: lines.append('  %s; /* ghost */' % d)
        if not lines: lines.append('  char _empty;')
        self.rec_defs.append('/* %s */\nstruct %s {\n%s\n};' % (sorted(names, key=len)[-1], cname, '\n'.join(lines)))
        return cname

    def rec_of_fn(self, fn):
        pid = fn.get('parentDeclContextId')
        p = self.idx.by_id.get(pid) if pid else self.idx.parent.get(fn['id'])
        if p is not None and p.get('kind') in ('FriendDecl',): return None
        if p is not None and p.get('kind') not in REC_KINDS:
            # out-of-line definition: parentDeclContextId names the record
            return None
        return p

    def trivially_destructible(self, t):
        k = t[0]
        if k == 'alias': return self.trivially_destructible(self.tparse(t[1]))
        if k in ('builtin', 'ptr', 'ref', 'refw', 'initlist', 'fnobj', 'vec'): return True   # fnobj/vec: the model owns no storage that a destructor would have to release
        if k == 'model': return t[1] not in ('struct vp_lock', 'struct vp_shared_ptr', 'struct vp_function')
        if k == 'uptr': return False
        if k == 'rec':
            dd = t[1].get('definitionData', {}).get('dtor', {})
            return bool(dd.get('trivial'))
        if k in ('stdarray', 'array'): return self.trivially_destructible(self.tparse(t[1]))
        if k == 'tuple': return all(self.trivially_destructible(self.tparse(e)) for e in t[1])
        if k == 'pair': return all(self.trivially_destructible(self.tparse(e)) for e in t[1])
        return False

    def destroy_stmt(self, t, lval):
        """C statement destroying object lval (a C lvalue expression) of type t, or None"""
        while t[0] == 'alias': t = self.tparse(t[1])
        if self.trivially_destructible(t): return None
        k = t[0]
        if k == 'rec': return '%s(&(%s));' % (self.need_complete_dtor(t[1]), lval)
        if k == 'uptr': return '%s(%s);' % (self.need_deleter(t[1]), lval)
        if k == 'model':
            nm = t[1].split()[-1] + '_dtor'
            self.stubs.setdefault(nm, 'void %s(%s * self)' % (nm, t[1]))
            return '%s(&(%s));' % (nm, lval)
        if k in ('stdarray', 'array'):
            et = self.tparse(t[1]); n = t[2]
            acc = '(%s).e[%%d]' if k == 'stdarray' else '(%s)[%%d]'
            parts = [self.destroy_stmt(et, (acc % lval) % i) for i in reversed(range(n))]
            return ' '.join(p for p in parts if p)
        if k == 'pair':
            parts = [self.destroy_stmt(self.tparse(t[1][1]), '(%s).second' % lval), self.destroy_stmt(self.tparse(t[1][0]), '(%s).first' % lval)]
            return ' '.join(p for p in parts if p)
        if k == 'tuple':
            parts = [self.destroy_stmt(self.tparse(e), '(%s)._%d' % (lval, i)) for i, e in reversed(list(enumerate(t[1])))]
            return ' '.join(p for p in parts if p)
        raise Unsupported('destroy of %s' % (t,))

    def need_deleter(self, pointee):
        t = self.tparse(pointee)
        while t[0] == 'alias': t = self.tparse(t[1])
        ct = self.ctype_of(t)
        nm = 'vp_delete_' + sanitize(ct)
        if nm not in self.deleters:
            self.deleters[nm] = None
            if t[0] == 'rec' and self.idx.is_polymorphic(t[1]):
                self.deleters[nm] = 'void %s(%s * p)\n{\n  if (p) { %s(p); }\n}\n' % (nm, ct, self.need_dtor_dispatch(t[1], deleting=True))
            else:
                call = self.destroy_stmt(t, '*p') or ''
                self.deleters[nm] = 'void %s(%s * p)\n{\n  if (p) { %s vp_free(p); }\n}\n' % (nm, ct, call)
            self.protos.append('void %s(%s * p);' % (nm, ct))
        return nm

    def need_complete_dtor(self, rec):
        cname = self.need_rec(rec)
        nm = 'fd_' + cname
        if rec['id'] not in self.complete_dtors:
            self.complete_dtors[rec['id']] = nm
            self.worklist.append(('cdtor', rec))
            self.protos.append('void %s(struct %s * self);' % (nm, cname))
        return nm

    # -------------------------------------------------------------- functions
    def fname(self, fn):
        return 'f_' + fn.get('mangledName', sanitize(fn.get('name', 'anon')) + '_' + fn['id'][-6:])

    def is_opaque(self, fn):
        key = fn.get('mangledName', '') + ' ' + fn.get('name', '')
        return any(p.search(key) for p in self.opaque)

    def signature(self, fn, cname=None):
        kind = fn['kind']
        params = []
        rec = self.rec_of_method(fn)
        if kind in ('CXXMethodDecl', 'CXXConstructorDecl', 'CXXDestructorDecl', 'CXXConversionDecl') and fn.get('storageClass') != 'static':
            if rec is None: raise Unsupported('method without record: %s' % fn.get('name'))
            params.append('struct %s * self' % self.need_rec(rec))
        for p in fn.get('inner', []):
            if p.get('kind') == 'ParmVarDecl':
                t = self.tinfo(p['type'])
                params.append('%s %s' % (self.ctype_of(t), self.pname(p)))
        if kind in ('CXXConstructorDecl', 'CXXDestructorDecl'):
            rett = 'void'
        else:
            rett = self.ctype_of(self.tinfo(self.ret_type_str(fn)))
        return '%s %s(%s)' % (rett, cname or self.fname(fn), ', '.join(params) or 'void')

    def ret_type_str(self, fn):
        """declared return type; for `decltype(expr)` / deduced `auto` the type of the first returned expression"""
        r = ret_of(fn['type']['qualType'])
        if r.startswith('decltype(') or r in ('auto', 'decltype(auto)'):
            d = self.idx.defn.get(fn['id'], fn)
            def find(n):
                if not isinstance(n, dict): return None
                if n.get('kind') == 'ReturnStmt' and n.get('inner'): return n['inner'][0]
                if n.get('kind') == 'LambdaExpr': return None
                for c in n.get('inner', []):
                    x = find(c)
                    if x is not None: return x
                return None
            e = find(self.idx.body(d) or {})
            if e is None: return 'void'
            t = qt(e['type'])
            if e.get('valueCategory') == 'lvalue' and r != 'auto': t += ' &'
            elif e.get('valueCategory') == 'xvalue' and r.startswith('decltype(') and r != 'decltype(auto)': t += ' &&'   # decltype(f(...)) of a call returning T&&
            return t
        return r

    def pname(self, p):
        return p.get('_vp_name') or p.get('name') or ('_p' + p['id'][-5:])

    def rec_of_method(self, fn):
        pid = fn.get('parentDeclContextId')
        if pid and self.idx.by_id.get(pid, {}).get('kind') in REC_KINDS:
            return self.idx.by_id[pid]
        p = self.idx.parent.get(fn['id'])
        while p is not None and p.get('kind') in ('FunctionTemplateDecl', 'FriendDecl'):
            if p.get('kind') == 'FriendDecl': return None
            p = self.idx.parent.get(p['id']) if 'id' in p else None
        if p is not None and p.get('kind') in REC_KINDS: return p
        # out-of-line: walk previousDecl
        pd = fn.get('previousDecl')
        while pd:
            q = self.idx.parent.get(pd)
            if q is not None and q.get('kind') in REC_KINDS: return q
            pd = self.idx.by_id.get(pd, {}).get('previousDecl')
        return None

    def need_fn(self, decl_id):
        fn = self.idx.defn.get(decl_id)
        d0 = self.idx.by_id.get(decl_id)
        if fn is None:
            if d0 is None: raise Unsupported('unknown callee id %s' % decl_id)
            if self.is_opaque(d0):
                nm = self.fname(d0)
                self.stubs.setdefault(nm, self.signature(d0))
                return nm
            raise Unsupported('no definition for callee %s (%s)' % (d0.get('name'), d0.get('mangledName')))
        nm = self.fname(fn)
        if self.is_opaque(fn):
            self.stubs.setdefault(nm, self.signature(fn))
            return nm
        if fn['id'] not in self.fn_names:
            self.fn_names[fn['id']] = nm
            self.worklist.append(('fn', fn))
        return nm

    def fn_may_throw(self, fn):
        return not is_noexcept(fn['type']['qualType']) and fn['kind'] != 'CXXDestructorDecl'

    # ---- virtual dispatch ---------------------------------------------------
    def dyn_recs(self):
        out = []
        for n, r in self.idx.rec_by_name.items():
            if any(p.search(n) for p in self.dyn_types) and r not in out: out.append(r)
        return out

    def final_overrider(self, rec, method):
        """method of rec (or nearest base) overriding `method` (same name & params), with body"""
        def mparams(m):
            # canonical parameter types: the mock function made by MAKE_MOCKn spells them param_list_t<Sig, I> (sugar), its interface spells the type
            ps = [x for x in m.get('inner', []) if x.get('kind') == 'ParmVarDecl']
            spelled = params_of(m['type']['qualType'])
            if len(ps) != len(spelled): return tuple(norm(p) for p in spelled)
            return tuple(norm(x['type'].get('desugaredQualType') or x['type']['qualType']) for x in ps)
        want = (method.get('name'), mparams(method), 'const' in method['type']['qualType'].rsplit(')', 1)[-1])
        def search(r):
            for m in self.idx.methods(r):
                if m.get('kind') == method.get('kind') and m.get('name') == want[0] and mparams(m) == want[1] \
                   and ('const' in m['type']['qualType'].rsplit(')', 1)[-1]) == want[2]:
                    return m, r
            for b, br in self.idx.bases(r):
                if br is not None:
                    x = search(br)
                    if x: return x
            return None
        return search(rec)

    def need_dispatch(self, method, srec):
        """dispatcher for a virtual call of `method` declared (statically) in srec"""
        nm = 'vd_' + method.get('mangledName', sanitize(method['name']))
        if nm in self.dispatchers: return nm
        self.dispatchers[nm] = None
        sc = self.need_rec(srec)
        sig = self.signature(method, nm)
        stub = 'vs_' + method.get('mangledName', sanitize(method['name']))
        self.stubs.setdefault(stub, self.signature(method, stub))
        argn = ['self'] + [self.pname(p) for p in method.get('inner', []) if p.get('kind') == 'ParmVarDecl']
        rett = sig.split(' ' + nm)[0]
        ret = '' if rett == 'void' else 'return '
        tagexpr = self.tag_expr(srec)
        cases = []
        for r in self.dyn_recs():
            path = self.idx.base_path(r, srec)
            if path is None: continue
            fo = self.final_overrider(r, method)
            if fo is None: continue
            m, owner = fo
            d = self.idx.defn.get(m['id'])
            if d is None or m.get('pure'): continue
            rc = self.need_rec(r)
            oc = self.need_rec(owner)
            # this-adjustment: static base subobject -> dynamic object -> owner subobject
            if all(p == '_b0' for p in path): dyn = '((struct %s *)self)' % rc
            else: dyn = '((struct %s *)((char *)self - __builtin_offsetof(struct %s, %s)))' % (rc, rc, '.'.join(path))
            opath = self.idx.base_path(r, owner)
            this = dyn if not opath else '(&%s->%s)' % (dyn, '.'.join(opath))
            fnm = self.need_fn(m['id'])
            cases.append('    case %s: %s%s(%s);%s' % (self.tag_of(rc), ret, fnm, ', '.join([this] + argn[1:]), '' if ret else ' return;'))
        body = '%s\n{\n  switch (%s) {\n%s\n    case %s: %s%s(%s);%s\n    default: vp_bad_dispatch(); %s\n  }\n}\n' % (
            sig, tagexpr, '\n'.join(cases), self.user_tag(srec), ret, stub, ', '.join(argn), '' if ret else ' return;', 'return _vp_d;' if ret else 'return;')
        if ret: body = body.replace('{\n  switch', '{\n  %s _vp_d;\n  switch' % rett, 1)
        self.dispatchers[nm] = body
        self.protos.append(sig + ';')
        return nm

    def root_of(self, srec):
        r = srec
        while True:
            nxt = None
            for b, br in self.idx.bases(r):
                if br is not None and self.idx.is_polymorphic(br): nxt = br; break
            if nxt is None: return r
            r = nxt

    def tag_expr(self, srec):
        """the ghost tag is read through a pointer to the polymorphic ROOT type: CBMC then resolves the read
        by type+offset in whatever object the pointer designates (e.g. a list sentinel embedded in another
        object) and can filter the points-to set per switch case"""
        tagpath = self.idx.poly_root_paths(srec)
        if not tagpath: raise Unsupported('virtual call on non-polymorphic record')
        root = self.root_of(srec)
        rc = self.need_rec(root)
        if all(p == '_b0' for p in tagpath[0]): return '((struct %s *)self)->vp_tag' % rc
        return '(&self->%s)->vp_tag' % '.'.join(tagpath[0])

    def user_tag(self, srec):
        """tag carried by objects whose dynamic type is user code (clauses, tracers): they dispatch to the contract-only stub"""
        rc = self.need_rec(self.root_of(srec))
        return self.tag_of('USER_' + rc)

    def fn_erase(self, sig, closure_rec, op):
        """register closure type `closure_rec` (call operator `op`) as a possible content of std::function<sig>; returns its tag"""
        ent = self.fn_erasure.setdefault(sig, [])
        for k, (r, o, f) in enumerate(ent):
            if r['id'] == closure_rec['id']: return k + 1
        ent.append((closure_rec, op, self.need_fn(op['id'])))
        return len(ent)

    def fn_dispatcher(self, sig):
        nm = 'vp_fncall_' + sanitize(sig)
        if nm not in self.fn_dispatch_names:
            self.fn_dispatch_names[nm] = sig
            self.fn_erasure.setdefault(sig, [])
            self.protos.append(self.fn_dispatch_sig(sig, nm) + ';')
        return nm

    def fn_dispatch_sig(self, sig, nm):
        ps = params_of(sig)
        return '%s %s(%s)' % (self.ctype(ret_of(sig)), nm, ', '.join(['struct vp_fnobj * self'] + ['%s a%d' % (self.ctype(p), i) for i, p in enumerate(ps)]))

    def fn_dispatch_bodies(self):
        out = []
        for nm, sig in self.fn_dispatch_names.items():
            ps = params_of(sig); rett = self.ctype(ret_of(sig)); ret = '' if rett == 'void' else 'return '
            cases = []
            for k, (r, o, f) in enumerate(self.fn_erasure.get(sig, [])):
                cases.append('    case %d: %s%s(%s);%s' % (k + 1, ret, f, ', '.join(['(struct %s *)self->obj' % self.need_rec(r)] + ['a%d' % i for i in range(len(ps))]), '' if ret else ' return;'))
            body = '%s\n{\n%s  switch (self->tag) {\n%s\n    default: vp_bad_function_call(); %s\n  }\n}\n' % (
                self.fn_dispatch_sig(sig, nm), ('  %s _vp_d;\n' % rett) if ret else '', '\n'.join(cases), 'return _vp_d;' if ret else 'return;')
            out.append(body)
        return out

    def need_dtor_dispatch(self, srec, deleting=False):
        """virtual destructor call through a pointer to srec; deleting=True: the deleting destructor (`delete p`): the storage of the
        COMPLETE object is released, which starts before p when srec is not its first base"""
        sc = self.need_rec(srec)
        nm = ('vd_del_' if deleting else 'vd_dtor_') + sc
        if nm in self.dispatchers: return nm
        self.dispatchers[nm] = None
        stub = 'vs_dtor_' + sc
        self.stubs.setdefault(stub, 'void %s(struct %s * self)' % (stub, sc))
        tagexpr = self.tag_expr(srec)
        cases = []
        for r in self.dyn_recs():
            path = self.idx.base_path(r, srec)
            if path is None: continue
            rc = self.need_rec(r)
            if all(p == '_b0' for p in path): dyn = '((struct %s *)self)' % rc
            else: dyn = '((struct %s *)((char *)self - __builtin_offsetof(struct %s, %s)))' % (rc, rc, '.'.join(path))
            cases.append('    case %s: %s(%s);%s return;' % (self.tag_of(rc), self.need_complete_dtor(r), dyn, (' vp_free(%s);' % dyn) if deleting else ''))
        sig = 'void %s(struct %s * self)' % (nm, sc)
        self.dispatchers[nm] = '%s\n{\n  switch (%s) {\n%s\n    case %s: %s(self);%s return;\n    default: vp_bad_dispatch(); return;\n  }\n}\n' % (sig, tagexpr, '\n'.join(cases), self.user_tag(srec), stub, ' vp_free(self);' if deleting else '')
        self.protos.append(sig + ';')
        return nm

    # ---- driver -----------------------------------------------------------
    def run(self, roots):
        from cxx2c_body import FnLower
        aliases = []
        for alias, spec in roots.items():
            if spec.startswith('dtor:'):
                pat = re.compile(spec[5:])
                found = []
                for n, r in self.idx.rec_by_name.items():
                    if pat.search(n) and r not in found: found.append(r)
                if len(found) != 1:
                    raise Unsupported('root %s (%s) matched %d records' % (alias, spec, len(found)))
                aliases.append((alias, self.need_complete_dtor(found[0])))
                continue
            if spec.startswith('rec:'):
                pat = re.compile(spec[4:])
                found = []
                for n, r in self.idx.rec_by_name.items():
                    if pat.search(n) and r not in found: found.append(r)
                if len(found) != 1:
                    raise Unsupported('root %s (%s) matched %d records: %s' % (alias, spec, len(found), [self.rec_cname(r) for r in found][:5]))
                aliases.append((alias, self.need_rec(found[0])))
                continue
            pat = re.compile(spec)
            found = [n for i, n in self.idx.defn.items() if n['id'] == i and pat.search(n.get('mangledName', ''))]
            if len(found) != 1:
                raise Unsupported('root %s (%s) matched %d definitions' % (alias, spec, len(found)))
            aliases.append((alias, self.need_fn(found[0]['id'])))
            # pointee types of the first parameters, for harnesses that must declare such objects
            sigp = self.signature(found[0]).split('(', 1)[1].rsplit(')', 1)[0].split(', ')
            for k, prm in enumerate(sigp[:3]):
                m = re.match(r'^(struct \w+) \* \w+$', prm)
                if m: aliases.append(('%s_T%d' % (alias, k), m.group(1)))
        while self.worklist:
            kind, obj = self.worklist.pop()
            fl = FnLower(self)
            if kind == 'fn':
                text, sig = fl.lower_fn(obj)
            else:
                text, sig = fl.lower_complete_dtor(obj)
            self.bodies.append(text)
            if kind == 'fn': self.protos.append(sig + ';')
        hdr = ['/* generated by cxx2c from the clang AST of /repo - do not edit */']
        hdr += sorted(set(self.rec_fwd))
        if self.tags:
            hdr.append('enum {\n' + ',\n'.join('  VP_TAG_%s = %d' % (k, v) for k, v in sorted(self.tags.items(), key=lambda kv: kv[1])) + '\n};')
        hdr += self.rec_defs
        hdr += ['/* stubs (no body here: harness/models supply body or contract) */']
        hdr += [s + ';' for s in sorted(self.stubs.values())]
        hdr += sorted(set(self.protos))
        hdr += ['#define %s %s' % (a, c) for a, c in aliases]
        for a, pat in self.cfg.get('stub_aliases', {}).items():
            ms = [k for k in self.stubs if re.search(pat, k)]
            if len(ms) != 1: raise Unsupported('stub alias %s (%s) matched %d stubs' % (a, pat, len(ms)))
            hdr.append('#define %s %s' % (a, ms[0]))
        src = list(self.bodies) + self.fn_dispatch_bodies() + [d for d in self.dispatchers.values() if d] + [d for d in self.deleters.values() if d]
        return '\n'.join(hdr) + '\n', '\n'.join(src) + '\n'
