#!/bin/bash
# confirm_seed.sh <src-dir with patch.diff demo.cpp meta.txt> <seed-id> <property> : confirm a seeded change in a scratch
# worktree of /repo (outside /repo and /verif): applies, suite still passes, demo passes without / fails with the change.
set -u
SRC=$1; ID=$2; PROP=$3
WT=/tmp/seedwt_$ID
rm -rf $WT; git -C /repo worktree prune; git -C /repo worktree add -q --detach $WT HEAD || exit 2
OUT=/verif/seeded/$ID; mkdir -p $OUT
[ "$SRC" = "$OUT" ] || { cp $SRC/patch.diff $OUT/patch.diff; cp $SRC/demo.cpp $OUT/demo.cpp; cp $SRC/meta.txt $OUT/agent_meta.txt 2>/dev/null; }
res() { echo "$1" >> $OUT/confirm.log; }
: > $OUT/confirm.log
cd $WT
SAN=""; grep -q "sanitize=address" $OUT/agent_meta.txt 2>/dev/null && SAN="-fsanitize=address -g"
g++ -std=c++14 $SAN -I$WT/include $OUT/demo.cpp -o $WT/demo_clean 2>$WT/demo_clean.err; ( $WT/demo_clean >/dev/null 2>&1 ); res "demo on clean tree: exit $?"
DEMO_CLEAN=$(tail -1 $OUT/confirm.log)
if ! git apply $OUT/patch.diff; then res "patch does not apply"; git -C /repo worktree remove --force $WT; exit 1; fi
g++ -std=c++14 $SAN -I$WT/include $OUT/demo.cpp -o $WT/demo_mut 2>$WT/demo_mut.err; ( $WT/demo_mut >/dev/null 2>&1 ); res "demo with the change: exit $?"
cmake -S $WT -B $WT/_b -DTROMPELOEIL_BUILD_TESTS=ON -DCMAKE_BUILD_TYPE=Debug >/dev/null 2>&1
if cmake --build $WT/_b --target self_test -j8 >$WT/build.log 2>&1; then
  $WT/_b/test/self_test > $WT/test.log 2>&1; res "self_test with the change: exit $? ($(tail -2 $WT/test.log | tr '\n' ' '))"
else res "self_test with the change: BUILD FAILED"; fi
cat $OUT/confirm.log
cd /; git -C /repo worktree remove --force $WT
