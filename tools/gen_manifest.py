#!/usr/bin/env python3
"""generate MANIFEST.json from specs/registry.py + specs/manifest_meta.py"""
import json, os, sys
HERE = os.path.dirname(os.path.dirname(os.path.abspath(__file__)))
sys.path.insert(0, os.path.join(HERE, 'specs'))
import registry, manifest_meta as mm
props = sorted(set(p for o in registry.OBLIGATIONS for p in o['props']))
checks = []
for p in props:
    if p not in mm.CLAIMED: continue
    m = mm.CLAIMED[p]
    checks.append({
        'property_id': p,
        'quick_cmd': './check %s --tier quick' % p,
        'thorough_cmd': './check %s --tier thorough' % p,
        'evidence_file': 'evidence/%s.json' % p,
        'replay_cmd_template': 'cat {path}/violation.json {path}/cbmc_output.txt; test ! -x {path}/run_replay.sh || {path}/run_replay.sh',
        'engine': 'cbmc-contracts',
        'level_claimed': {'category': m['category'], 'text': m['text'], 'design_ref': m.get('design_ref', 'DESIGN.md section 7 ' + p)},
        'level_note': m['note'],
        'technique': m.get('technique', 'contract-based deductive verification: CBMC function contracts (goto-instrument --dfcc) on C lowered mechanically from the real C++ on every run'),
    })
man = {
    'version': 1,
    'setup_cmd': 'python3 -m py_compile tools/cxx2c.py tools/cxx2c_fn.py tools/cxx2c_body.py tools/lower.py tools/vp.py tools/replay.py specs/registry.py && mkdir -p .cache evidence',
    'hooks': {'guard': 'TROMPELOEIL_VERIF', 'enable': 'no source hooks are needed: the checks read /repo/include through clang -ast-dump and lower it to C', 
              'baseline_off_cmd': 'cmake --build /repo/_build && ctest --test-dir /repo/_build -j8 --timeout 900', 'source_commits': [], 'add_only': True},
    'engines': [{'name': 'cbmc-contracts', 'path': 'check', 'serves_properties': [c['property_id'] for c in checks],
                 'kind_free_text': 'clang JSON AST -> C lowering (tools/cxx2c*.py) + spliced CBMC code contracts (specs/*.spec) + goto-instrument --dfcc + cbmc'}],
    'checks': checks,
    'notes': mm.NOTES,
    'not_applicable': [{'property_id': p, 'reason': r} for p, r in sorted(mm.NOT_APPLICABLE.items()) if p not in [c['property_id'] for c in checks]],
}
json.dump(man, open(os.path.join(HERE, 'MANIFEST.json'), 'w'), indent=1)
print('MANIFEST: %d checks, %d not applicable' % (len(checks), len(man['not_applicable'])))
