#!/usr/bin/env python3
"""seed_meta.py - write seeded/<id>/meta.json from confirm.log, the agent's meta.txt and the recorded check runs
(seeded/<id>/checks.log, produced by tools/run_seed_on_repo.sh), and print the DESIGN.md table."""
import os, re, json, glob
HERE = os.path.dirname(os.path.dirname(os.path.abspath(__file__)))
INFO = {
 'a1': ('C02', 'find(): `cost < lowest_cost` -> `<=`: among equally costly sequenced candidates the oldest wins', 'two matching sequenced expectations that each pass over the same non-zero number of pending optional predecessors, no cost-0 candidate'),
 'a2': ('C05', 'run_actions(): predecessors retired only when the handler is satisfied (reverts fix F1)', 'sequence A TIMES(1,3), B TIMES(2); calls a, b, a'),
 'a3': ('C01', 'match_conditions(): only the last WITH clause decides', 'expectation with >= 2 WITH clauses, an earlier one false and the last one true'),
 'b1': ('C03', 'run_actions(): increment_call() before the sequence check', 'out-of-sequence call caught by a throwing reporter, then the test goes on using the expectation'),
 'b2': ('C04', 'mock_destroyed(): reports without looking at `reported`', 'expectation below its bound, named in an earlier no-match report, mock object destroyed before the expectation'),
 'b3': ('C04', '~expectations<true,...>: saturated.decommission() dropped (movable mocks only)', 'movable mock, saturated expectation outliving the mock'),
 'c1': ('C05', 'lifetime_monitor::notify(): early return after the non-fatal sequence report', 'sequenced REQUIRE_DESTRUCTION destroyed out of order, then a successor in the sequence is used'),
 'c2': ('C06', '~sequence_type(): lists only unsatisfied expectations', 'sequence object dies while satisfied-but-unsaturated expectations are still registered'),
 'c3': ('C05', 'run_actions(): increment_call() before validate (same site as b1)', 'out-of-sequence call, exception caught, expectation used afterwards'),
 'd1': ('C07', 'run_actions(): forbidden check skipped once `reported` is set', 'FORBID_CALL already named in an earlier report, then a matching call'),
 'd2': ('C08', 'match_conditions(): every WITH clause evaluated even after one failed', 'guard idiom .WITH(_1 != nullptr).WITH(*_1 == 3), or WITH clauses with side effects'),
 'd3': ('C16', 'run_actions(): OK report sent after the side effects', 'accepted call whose SIDE_EFFECT throws'),
 'e1': ('C13', 'null_on_move copy assignment clears the pointer (reverts half of fix F3)', 'deathwatched object with a live requirement is assigned to, then destroyed'),
 'e2': ('C14', 'expectations<true,...> move constructor moves only `active`', 'movable mock with a saturated expectation, moved, then over-called'),
 'e3': ('C14', '~expectations<true,...>: saturated.decommission() dropped (same as b3)', 'movable mock, saturated NAMED expectation outliving the mock: std::abort() in ~list'),
 'f1': ('C15', 'call_matcher::report_mismatch(): only the first WITH clause examined', 'no-match report for an expectation whose first WITH holds and a later one fails'),
 'f2': ('C15', 'free report_mismatch(): saturated listing stops after the first match', 'two saturated expectations that both match the rejected call'),
 'f3': ('C17', 'mock_func(): trace_params()/run_actions() hoisted out of the try block', 'live tracer, accepted call whose SIDE_EFFECT throws'),
 'g1': ('C10', 're(): string_helper for string-like classes delegates to the char const* constructor (strlen) and truncates at an embedded NUL', 'std::string / string_view argument with an embedded NUL and the regex matching only beyond it (or anchored with $)'),
 'g2': ('C11', 'range_includes(e...): remove_if/erase drops every remaining matcher a member satisfies', 'range_includes with two listed elements that one range member satisfies and no second member does'),
 'g3': ('C11', 'range_ends_with(e...): `size < num_values` -> `size <= num_values`', 'range exactly as long as the list of elements and equal to it'),
 'h1': ('C18', 'stream_sentry constructor no longer resets the fill character to blank', 'destination stream carrying a non-blank fill and a leaf printer that sets a width (e.g. hexdump, or a user operator<< using setw)'),
 'h2': ('C18', 'hexdump() walks the object as plain (signed) char instead of uint8_t', 'non-printable object with a byte >= 0x80 on a target where char is signed'),
 'h3': ('C19', 'call_limit_injector<Parent,0> no longer sets call_limit_set', '.TIMES(0) followed by a second TIMES / RT_TIMES (must be rejected at compile time)'),
 'i1': ('C15', 'free report_mismatch(): the signature of a matching saturated expectation printed only under the heading (first one only)', 'two saturated expectations that both match the rejected call'),
 'i2': ('C06', 'sequence_type::is_completed(): looks at the first registered expectation only', 'sequence whose head is satisfied while a later registered expectation is below its lower bound'),
 'i3': ('C14', 'list_elem move assignment: `next = r.next` -> `next = r.prev`', 'movable mock with two or more expectations is moved; the ring of the new object is corrupt'),
 'j1': ('C10', 'comparison functor greater_equal: `x >= y` -> `!(x < y)`', 'unordered operands: ge(v) on double with a NaN argument or operand (or a partially ordered user type)'),
 'j2': ('C13', 'lifetime_monitor::notify(): `died = true` moved below the sequence check, out-of-sequence branch returns', 'sequenced REQUIRE_DESTRUCTION, object destroyed out of sequence, reporter that returns from the non-fatal report'),
 'j3': ('C16', 'two-argument set_reporter(): exchange replaced by assignment, the returned pair carries the NEW ok-reporter', 'save / replace / restore idiom using the returned pair'),
 'k1': ('C02', 'sequence_matchers<N>::order(): the last listed sequence cost wins instead of the largest', 'expectation in two sequences with different non-zero costs (smaller one listed last) and a competitor whose cost lies between'),
 'k2': ('C04', 'run_actions(): increment_call() before the sequence check (same site as b1/c3)', 'out-of-sequence call rejected and caught, then the expectation ends its life below its lower bound: no report'),
 'k3': ('C07', 'run_actions(): forbidden check moved after the sequence check and increment_call()', 'NAMED forbidding expectation is hit, then is_saturated()/is_satisfied() are queried'),
 'l1': ('C17', '~tracer(): set_tracer(nullptr) instead of set_tracer(previous)', 'two tracers alive, the inner one dies, then an accepted call'),
 'l2': ('C18', '~stream_sentry(): os.setf(flags, basefield|adjustfield) instead of os.flags(flags)', 'destination stream carrying flags outside base/adjust (boolalpha, showbase, ...) and later output on it'),
 'l3': ('C11', 'range_is_permutation: matchers.erase(found) instead of swap-with-last + pop_back', 'three or more listed matchers, two of which overlap, a non-last one consumed first'),
 'm1': ('C09', 'TROMPELOEIL_SIDE_EFFECT_: the _12 and _14 bindings are transposed (side effects only)', 'arity >= 14 and a side effect that names _12 or _14'),
 'm2': ('C08', 'call_matcher::report_mismatch(): the break after the first failing WITH clause is dropped', 'no-match report for an expectation with >= 2 WITH clauses, an earlier one failing: later clauses are evaluated (guard idiom dereferences null)'),
 'm3': ('C19', 'times::action: guard `H > 0 || !sequence_set` tests L instead of H', 'legal .IN_SEQUENCE(s).TIMES(AT_MOST(n)) / TIMES(0, n) is refused at compile time'),
 'n1': ('C05', 'sequence_type::validate_match(): the early return for a sequence that does not block the expectation is dropped (rebased onto fix F9)', 'expectation or REQUIRE_DESTRUCTION naming two sequences and blocked in only one of them'),
 'n2': ('C03', 'find(): `cost < lowest_cost` -> `lowest_cost < cost`: the most expensive candidate wins', 'two matching candidates with non-zero cost, one of them ineligible'),
 'n3': ('C06', 'sequence_type::retire_until(): stops at the first unsatisfied predecessor', 'sequenced REQUIRE_DESTRUCTION behind an unsatisfied expectation, object destroyed too early, reporter returns'),
 'o1': ('C13', 'null_on_move copy constructor copies the pointer', 'deathwatched object with a live requirement copied through a const lvalue; the copy dies'),
 'o2': ('C16', 'one-argument set_reporter() resets the OK reporter to the default', 'a non-default OK reporter is installed, then set_reporter(f), then an accepted call'),
 'o3': ('C14', '~sequence_type(): early return when the sequence is completed (skips unlinking)', 'sequence object destroyed before satisfied-but-unsaturated expectations registered in it: std::abort() in ~list'),
 'p1': ('C10', 'not_matcher::matches(): `!is_null(u) && !m.matches(u)` (a "defensive" null guard)', '!m applied to a null pointer / null-comparable argument where m itself rejects null, e.g. !*eq(3) on a null int*'),
 'p2': ('C11', 'starts_with_elements_checker: the `it == e` end test is dropped', 'range_starts_with(e1..eN) against a range shorter than N whose members all match and whose trailing memory satisfies the remaining matchers'),
 'p3': ('C18', 'collection printer formats its members through streamer<value_type> directly instead of trompeloeil::print', 'a collection whose direct member is a null pointer, a null-comparable object or a type with a user printer<T>'),
 'q1': ('C01', 'sequence_type::retire_until(): `while` -> `if`: only the first skipped predecessor is retired', 'sequence with two or more skipped satisfied predecessors, then a call of the second skipped one'),
 'q2': ('C09', 'TROMPELOEIL_RETURN_: `auto&& _8` -> `auto _8` (RETURN / LR_RETURN only)', 'arity >= 8 and a RETURN expression that returns or writes through _8'),
 'q3': ('C19', 'lifetime.hpp alias guard tests TROMPELOEIL_LONG_MACRO: REQUIRE_DESTRUCTION / NAMED_REQUIRE_DESTRUCTION leak under TROMPELOEIL_LONG_MACROS', 'long-macro configuration only'),
 'r1': ('C02', 'sequence_type::cost(): a passed-over predecessor counts only if it is optional (lower bound 0)', 'satisfied-but-unsaturated predecessor with lower bound >= 1, a later step matching the call and a competing expectation of no higher true cost'),
 'r2': ('C15', 'sequence_type::validate_match(), empty-sequence branch: severity::nonfatal instead of the caller\'s severity', 'expectation retired from its sequence, the whole sequence drained, then that still-live expectation is called'),
 'r3': ('C07', 'run_actions(): the forbidden-call report prints params_string(val) (the expected values) instead of the actual arguments', 'forbidding expectation written with a wildcard or matcher parameter'),
 's1': ('C03', 'call_matcher::is_satisfied(): `return !is_unfulfilled();` instead of asking the handler', 'expectation below its lower bound that was named in an earlier no-match report, or whose mock object died first, then is_satisfied() is queried'),
 's2': ('C08', 'run_actions(): `if (reported) return;` in front of the side-effect loop', 'expectation named in an earlier no-match report (caught by the test), later accepted call: its side effects do not run'),
 's3': ('C16', 'reporter<T>::sendOk(): the OK reporter is copied into a function-local static at the first OK report', 'OK reporter replaced with set_reporter(rf, orf) after an OK report has already been delivered'),
 't1': ('C13', '~lifetime_monitor: `if (!died && object_monitor == this)`', 'two requirements on one object, both released while the object is alive: the one the object does not point to ends without its still-alive report'),
 't2': ('C14', '~lifetime_monitor: `object_monitor = nullptr` moved out of the `if (!died)` block', 'object destroyed first, requirement released later: write into the dead object'),
 't3': ('C17', '~trace_agent: traces only `if (t && t == tracer_obj())`', 'a further tracer is created during the call (e.g. in a side effect) and outlives it: the call is not traced'),
 'u1': ('C04', '~call_matcher: reports only `if (is_unfulfilled() && !std::uncaught_exception())`', 'scope of an unfulfilled expectation left by an exception'),
 'u2': ('C05', 'sequence_handler<N>::retire_predecessors(): only `if (is_satisfied())` (the third site of F1)', 'lower bound >= 2, satisfied-but-unsaturated predecessor called again between the first call and the one that reaches the lower bound'),
 'u3': ('C06', '~sequence_type(): satisfied expectations are unlinked without being listed', 'sequence object dies before satisfied-but-open expectations registered in it'),
 'v1': ('C08', 'run_actions(): retire_predecessors() and the saturation retire() moved behind the side-effect loop', 'sequenced expectation behind an ALLOW_CALL, its SIDE_EFFECT throws: the call counts but the sequence does not move, the predecessor is accepted again'),
 'v2': ('C15', 'free report_mismatch(): the saturated listing prints heading and signature together and breaks after the first match', 'two saturated expectations that both match the rejected call (third writing of f2 / i1)'),
 'v3': ('C17', 'trace_agent: the per-call ostringstream member replaced by a reference to one function-local static buffer', 'live tracer and a mock call made from inside a side effect of a traced call: the outer record carries the inner call\'s text and values'),
 'w1': ('C05', 'lifetime_monitor::notify(): returns after the out-of-sequence report, before increment_call() / retire_predecessors()', 'sequenced REQUIRE_DESTRUCTION behind an unmet predecessor, object destroyed too early, then one more call (second writing of c1)'),
 'w2': ('C06', 'sequence_type::is_completed(): single-exit loop with a lost accumulator (`completed = matcher.is_satisfied()`): the last registered expectation decides', 'tail expectation with lower bound 0 registered behind a still-unsatisfied one'),
 'w3': ('C13', 'null_on_move copy / move assignment `= default` (copies the raw monitor pointer; reverts fix F3)', 'assignment to a deathwatched object while a requirement is alive on the target or the source, then the target dies'),
 'x1': ('C01', 'sequence_matchers<N>::order(): the sum of the per-sequence costs instead of their maximum (`~0U + k` wraps to a small number)', 'expectation in two sequences, blocked in one, behind a satisfied un-retired predecessor in the other: the call is accepted'),
 'x2': ('C04', 'free report_mismatch(): the "Tried ..." text of the active expectations is built up front (setting `reported`) even when a saturated expectation is blamed', 'saturated expectation over-called while another expectation on the same function is unfulfilled: its shortfall is never reported'),
 'x3': ('C14', 'list_elem move assignment rewritten with locals n, p: `n->next = this` where `p->next = this` is needed', 'movable mock moved while two or more expectations are linked on one function: the older ones are lost and their links dangle'),
}
rows = []
for d in sorted(glob.glob(os.path.join(HERE, 'seeded', '*'))):
    sid = os.path.basename(d)
    if sid not in INFO: continue
    prop, what, needs = INFO[sid]
    conf = open(os.path.join(d, 'confirm.log')).read().strip().split('\n') if os.path.exists(os.path.join(d, 'confirm.log')) else []
    checks = open(os.path.join(d, 'checks.log')).read() if os.path.exists(os.path.join(d, 'checks.log')) else ''
    caught = {}
    for m in re.finditer(r'\[(\w+)\] (\w+) tier=quick: (\d+) obligations, (\d+) discharged, (\d+) refuted, (\d+) undecided', checks):
        caught[m.group(2)] = {'obligations': int(m.group(3)), 'refuted': int(m.group(5)), 'undecided': int(m.group(6))}
    viol = sorted(set(re.findall(r'VIOLATION property=(\w+) replay=\S*/([^/\s]+?)(?:_N\d[\w.]*)?(?: no-failing-input-found)?$', checks, re.M)))
    reproduced = bool(re.search(r'VIOLATION property=\w+ replay=\S+$', checks, re.M))
    meta = {'id': sid, 'breaks_property': prop, 'change': what, 'needs_to_manifest': needs, 'written_by': 'sub-agent given only the property text and a scratch worktree',
            'confirmed': conf, 'ran': 'tools/confirm_seed.sh (scratch worktree: demo on clean tree, demo with change, self_test with change); tools/run_seed_on_repo.sh (git -C /repo apply; ./check <props>; git -C /repo checkout -- .)',
            'checks': caught, 'caught_by': [{'property': p, 'obligation': o} for p, o in viol], 'counterexample_replayed_on_real_headers': reproduced}
    json.dump(meta, open(os.path.join(d, 'meta.json'), 'w'), indent=1)
    det = ', '.join(sorted(set('%s: `%s`' % (p, o) for p, o in viol))) or ('**missed**' if caught else 'not run yet')
    if not caught and os.path.exists(os.path.join(d, 'prescreen.log')):
        # no recorded run on /repo yet: say what the pre-screen on a scratch worktree (tools/sweep_seed.sh) answered
        pre = open(os.path.join(d, 'prescreen.log')).read()
        pv = sorted(set(re.findall(r'VIOLATION property=(\w+) replay=\S*/([^/\s]+?)(?:_N\d[\w.]*)?(?: no-failing-input-found)?$', pre, re.M)))
        ran = re.findall(r'\] (\w+) tier=quick: (\d+) obligations, (\d+) discharged, (\d+) refuted, (\d+) undecided', pre)
        if ran:
            det = 'recorded run on /repo not done; pre-screen on a scratch worktree: ' + (', '.join('%s: `%s`' % (p, o) for p, o in pv) or '**missed** (%s)' % ', '.join(r[0] for r in ran))
            meta['prescreen_on_scratch_worktree'] = {'caught_by': [{'property': p, 'obligation': o} for p, o in pv], 'checks_run': [r[0] for r in ran]}
            json.dump(meta, open(os.path.join(d, 'meta.json'), 'w'), indent=1)
    rows.append('| %s | %s | %s | %s | %s |' % (sid, prop, what, needs, det))
print('| seed | property | change | needs | caught by (quick tier, run on /repo) |\n|---|---|---|---|---|')
print('\n'.join(rows))
