// Driver translation unit for the extraction: it contains NO library logic.
// Its only purpose is to make clang instantiate the templates of
// /repo/include/trompeloeil at the types listed in DESIGN.md §2.2, so that the
// JSON AST dump contains the *instantiated real functions*.
// One MAKE_MOCKn per source line (the macro builds identifiers from __LINE__).
#include <trompeloeil.hpp>

// the namespace name contains "trompeloeil::" so that clang's -ast-dump-filter keeps these helper types
namespace vp_trompeloeil {

struct vp_M {
  MAKE_MOCK1(f, int(int));
  MAKE_MOCK0(g, void());
  virtual ~vp_M() = default;
};

struct vp_MM {
  static constexpr bool trompeloeil_movable_mock = true;
  MAKE_MOCK1(f, int(int));
  MAKE_MOCK0(g, void());
};

struct vp_S { int m; };
struct vp_B1 { unsigned char b[1]; };
struct vp_B9 { unsigned char b[9]; };
struct vp_B17 { unsigned char b[17]; };

struct vp_D { int v = 0; virtual ~vp_D() = default; };

class vp_tracer : public trompeloeil::tracer {
public:
  void trace(char const*, unsigned long, std::string const&) override {}
};

int vp_use(int x, char const* str, int* ip)
{
  using trompeloeil::_;
  vp_tracer tr;
  vp_M m;
  trompeloeil::sequence s1, s2;
  REQUIRE_CALL(m, f(_)).IN_SEQUENCE(s1).TIMES(2).RETURN(_1);
  REQUIRE_CALL(m, f(1)).WITH(_1 > 0).LR_SIDE_EFFECT(x++).IN_SEQUENCE(s1, s2).RT_TIMES(1, 2).RETURN(x);
  REQUIRE_CALL(m, f(2)).THROW(3);
  ALLOW_CALL(m, g());
  FORBID_CALL(m, f(3));
  REQUIRE_CALL(m, g()).TIMES(AT_LEAST(1)).LR_SIDE_EFFECT(x--);
  auto ne = NAMED_REQUIRE_CALL(m, g()).IN_SEQUENCE(s2);
  bool q = ne->is_satisfied() && ne->is_saturated();
  m.g();
  int r = m.f(1) + s1.is_completed() + q;

  vp_MM mm;
  ALLOW_CALL(mm, f(_)).RETURN(0);
  ALLOW_CALL(mm, g());
  vp_MM mm2(std::move(mm));
  mm2.g();
  r += mm2.f(2);

  auto* dw = new trompeloeil::deathwatched<vp_D>();
  REQUIRE_DESTRUCTION(*dw);
  auto nd = NAMED_REQUIRE_DESTRUCTION(*dw).IN_SEQUENCE(s1);
  trompeloeil::deathwatched<vp_D> dw2(*dw);
  dw2 = *dw;
  dw2 = std::move(*dw);
  trompeloeil::deathwatched<vp_D> dw3(std::move(dw2));
  trompeloeil::deathwatched<vp_D> const& dwc = dw3;
  trompeloeil::deathwatched<vp_D> dw4(dwc);          // copy from a const lvalue: the implicit copy constructor, not the forwarding one
  delete dw;

  // scalar matchers / combinators at int and pointer operand types
  REQUIRE_CALL(m, f(trompeloeil::eq(1))).RETURN(0);
  REQUIRE_CALL(m, f(trompeloeil::ne(1))).RETURN(0);
  REQUIRE_CALL(m, f(trompeloeil::lt(1))).RETURN(0);
  REQUIRE_CALL(m, f(trompeloeil::le(1))).RETURN(0);
  REQUIRE_CALL(m, f(trompeloeil::gt(1))).RETURN(0);
  REQUIRE_CALL(m, f(trompeloeil::ge(1))).RETURN(0);
  REQUIRE_CALL(m, f(!trompeloeil::eq(1))).RETURN(0);
  REQUIRE_CALL(m, f(trompeloeil::any_of(1, trompeloeil::gt(5)))).RETURN(0);
  REQUIRE_CALL(m, f(trompeloeil::all_of(trompeloeil::lt(9), trompeloeil::gt(5)))).RETURN(0);
  REQUIRE_CALL(m, f(trompeloeil::none_of(1, 2, 3))).RETURN(0);
  REQUIRE_CALL(m, f(ANY(int))).RETURN(0);

  std::ostringstream os;
  trompeloeil::print(os, x);
  trompeloeil::print(os, str);
  trompeloeil::print(os, ip);
  trompeloeil::print(os, nullptr);
  trompeloeil::print(os, vp_S{1});
  trompeloeil::print(os, vp_B1{});
  trompeloeil::print(os, vp_B9{});
  trompeloeil::print(os, vp_B17{});
  return r;
}

struct vp_P {
  MAKE_MOCK1(p, void(int*));
  MAKE_MOCK1(s, void(vp_S));
  MAKE_MOCK1(c, void(char const*));
};

void vp_use2()
{
  vp_P m;
  REQUIRE_CALL(m, p(*trompeloeil::eq(1)));
  REQUIRE_CALL(m, p(*!trompeloeil::gt(1)));
  REQUIRE_CALL(m, p(!*trompeloeil::eq(1)));
  REQUIRE_CALL(m, s(MEMBER_IS(&vp_S::m, trompeloeil::ge(1))));
  REQUIRE_CALL(m, c(trompeloeil::re("a")));
}


// abstract operand matchers: declaration only.  Their matches() is a contract-only stub in the harnesses,
// so each combinator is verified once against arbitrary operands (modular => any nesting depth).
template <int K>
struct vp_abs : trompeloeil::matcher {
  bool matches(int const&) const;
  friend std::ostream& operator<<(std::ostream& os, vp_abs const&) { return os; }
};

bool vp_combinators(int x, int* p, vp_S sv, char const* str)
{
  using namespace trompeloeil;
  bool r = true;
  r = param_matches(!vp_abs<1>{}, std::ref(x)) && r;
  r = param_matches(*vp_abs<1>{}, std::ref(p)) && r;
  r = param_matches(any_of(vp_abs<1>{}), std::ref(x)) && r;
  r = param_matches(any_of(vp_abs<1>{}, vp_abs<2>{}), std::ref(x)) && r;
  r = param_matches(any_of(vp_abs<1>{}, vp_abs<2>{}, vp_abs<3>{}), std::ref(x)) && r;
  r = param_matches(all_of(vp_abs<1>{}, vp_abs<2>{}, vp_abs<3>{}), std::ref(x)) && r;
  r = param_matches(none_of(vp_abs<1>{}, vp_abs<2>{}, vp_abs<3>{}), std::ref(x)) && r;
  r = param_matches(any_of(7, vp_abs<1>{}), std::ref(x)) && r;
  r = param_matches(any_of(), std::ref(x)) && r;
  r = param_matches(all_of(), std::ref(x)) && r;
  r = param_matches(none_of(), std::ref(x)) && r;
  r = param_matches(eq(1), std::ref(x)) && param_matches(ne(1), std::ref(x)) && param_matches(lt(1), std::ref(x)) && r;
  r = param_matches(le(1), std::ref(x)) && param_matches(gt(1), std::ref(x)) && param_matches(ge(1), std::ref(x)) && r;
  r = param_matches(eq<int>(1), std::ref(x)) && param_matches(lt<int>(1), std::ref(x)) && r;
  r = param_matches(_, std::ref(x)) && param_matches(ANY(int), std::ref(x)) && param_matches(5, std::ref(x)) && r;
  r = param_matches(MEMBER_IS(&vp_S::m, vp_abs<1>{}), std::ref(sv)) && r;
  r = param_matches(re("a"), std::ref(str)) && r;
  r = param_matches(eq(nullptr), std::ref(p)) && param_matches(ne(nullptr), std::ref(p)) && param_matches(nullptr, std::ref(p)) && r;
  double d = x;
  r = param_matches(eq(1.0), std::ref(d)) && param_matches(ne(1.0), std::ref(d)) && param_matches(lt(1.0), std::ref(d)) && r;
  r = param_matches(le(1.0), std::ref(d)) && param_matches(gt(1.0), std::ref(d)) && param_matches(ge(1.0), std::ref(d)) && r;
  r = param_matches(re("a", std::regex_constants::icase, std::regex_constants::match_not_bol), std::ref(str)) && r;
  r = param_matches(re("a", std::regex_constants::match_not_eol), std::ref(str)) && r;
  std::unique_ptr<int> up;
  r = param_matches(*vp_abs<1>{}, std::ref(up)) && r;
  std::string stdstr(str);
  r = param_matches(re("a"), std::ref(stdstr)) && r;
  return r;
}


// C18 structural printing: pairs, tuples, collections (element-wise), and a user-provided printer<T>
struct vp_UP { int v; };
} // namespace vp_trompeloeil
namespace trompeloeil {
template <> struct printer<vp_trompeloeil::vp_UP> { static void print(std::ostream& os, vp_trompeloeil::vp_UP const& p); };
}
namespace vp_trompeloeil {
void vp_print_structural(std::ostream& os, std::pair<int, char const*> const& pr, std::tuple<int, int*, char const*> const& tp, int (&arr)[3], std::array<char const*, 2> const& sa, vp_UP const& up, std::pair<vp_UP, int> const& nested)
{
  trompeloeil::print(os, pr); trompeloeil::print(os, tp); trompeloeil::print(os, arr); trompeloeil::print(os, sa); trompeloeil::print(os, up); trompeloeil::print(os, nested);
}

// the RETURN handler of the world harnesses: the real return_handler_t<Sig, F>::call (trace_return) around a functor that
// stands for the user's RETURN / THROW expression (declared only: the harness gives it its contract)
struct vp_retfn { int operator()(trompeloeil::call_params_type_t<int(int)>& p) const; };
int vp_reth(trompeloeil::trace_agent& agent, trompeloeil::call_params_type_t<int(int)>& params)
{
  trompeloeil::return_handler_t<int(int), vp_retfn> h{vp_retfn{}};
  return h.call(agent, params);
}

// building an expectation: the code the REQUIRE_CALL macros expand to (call_matcher constructor, IN_SEQUENCE registration,
// RT_TIMES limits incl. the low > high exception, RETURN handler, make_expectation / hook_last), then its release
std::unique_ptr<trompeloeil::expectation> vp_build(vp_M& m, trompeloeil::sequence& s, size_t lo, size_t hi)
{
  return NAMED_REQUIRE_CALL(m, f(trompeloeil::_)).IN_SEQUENCE(s).RT_TIMES(lo, hi).RETURN(0);
}
std::unique_ptr<trompeloeil::expectation> vp_build_plain(vp_M& m)
{
  return NAMED_REQUIRE_CALL(m, f(trompeloeil::_)).RETURN(0);
}
std::unique_ptr<trompeloeil::expectation> vp_build_at_most(vp_M& m)
{
  return NAMED_REQUIRE_CALL(m, f(trompeloeil::_)).TIMES(AT_MOST(3)).RETURN(0);
}
std::unique_ptr<trompeloeil::expectation> vp_build_at_least(vp_M& m)
{
  return NAMED_REQUIRE_CALL(m, f(trompeloeil::_)).TIMES(AT_LEAST(2)).RETURN(0);
}
std::unique_ptr<trompeloeil::expectation> vp_build_allow(vp_M& m)
{
  return NAMED_ALLOW_CALL(m, f(trompeloeil::_)).RETURN(0);
}
std::unique_ptr<trompeloeil::expectation> vp_build_forbid(vp_M& m)
{
  return NAMED_FORBID_CALL(m, f(trompeloeil::_));
}
std::unique_ptr<trompeloeil::expectation> vp_build_full(vp_M& m, trompeloeil::sequence& s1, trompeloeil::sequence& s2, int& g)
{
  return NAMED_REQUIRE_CALL(m, f(trompeloeil::_)).WITH(_1 > 0).WITH(_1 < 9).LR_SIDE_EFFECT(g = g * 2).LR_SIDE_EFFECT(g = g + 1).TIMES(2, 5).IN_SEQUENCE(s1, s2).LR_RETURN(_1 + g);
}
// C09: whole scenarios written against the public macros (nothing but API use); the harness supplies symbolic values and reads the observations
struct vp_M9 {
  MAKE_MOCK3(h, int(int&, int*, int const&));
  MAKE_MOCK1(r, int&(int&));
  MAKE_MOCK0(z, int());
  MAKE_CONST_MOCK2(c, void(int, int&));
};
struct vp_obs { int ret, x, y, extra; };
void vp_c09_alias(int x0, int y0, int z0, int k, vp_obs& o)
{
  vp_M9 m; int x = x0, y = y0; const int z = z0;
  int local = k;
  REQUIRE_CALL(m, h(trompeloeil::_, trompeloeil::_, trompeloeil::_))
    .LR_WITH(&_3 == &z)
    .SIDE_EFFECT(_1 = _1 + local)
    .LR_SIDE_EFFECT(*_2 = local)
    .RETURN(_3 + local);
  local = k + 100;
  o.ret = m.h(x, &y, z);
  o.x = x; o.y = y; o.extra = local;
}
void vp_c09_lr_return(int x0, int k, vp_obs& o)
{
  vp_M9 m; int x = x0; int local = k; int* p = nullptr;
  REQUIRE_CALL(m, r(trompeloeil::_)).LR_WITH(&_1 == p).LR_RETURN(_1);
  p = &x; local = x0;
  int& rr = m.r(x);
  rr = rr + 1;
  o.x = x; o.ret = (&rr == &x);
  ALLOW_CALL(m, z()).RETURN(local);
  local = local + 5;
  o.y = m.z();
}
void vp_c09_positions(int x0, int y0, vp_obs& o)
{
  const vp_M9 m; int a = x0, b = y0;
  o.extra = 0;
  REQUIRE_CALL(m, c(trompeloeil::_, trompeloeil::_)).LR_SIDE_EFFECT(o.extra = _1).SIDE_EFFECT(_2 = _1 + 7).SIDE_EFFECT(_1 = 0);
  m.c(a, b);
  o.x = a; o.y = b; o.ret = 0;
}
struct vp_M15 {
  MAKE_MOCK15(w, int(int&, int&, int&, int&, int&, int&, int&, int&, int&, int&, int&, int&, int&, int&, int&));
};
struct vp_obs15 { int v[15]; int ret; };
void vp_c09_arity15(int b, vp_obs15& o)
{
  using trompeloeil::_;
  vp_M15 m;
  int a1 = b, a2 = b, a3 = b, a4 = b, a5 = b, a6 = b, a7 = b, a8 = b, a9 = b, a10 = b, a11 = b, a12 = b, a13 = b, a14 = b, a15 = b;
  REQUIRE_CALL(m, w(_, _, _, _, _, _, _, _, _, _, _, _, _, _, _))
    .LR_WITH(&_1 == &a1 && &_2 == &a2 && &_3 == &a3 && &_4 == &a4 && &_5 == &a5 && &_6 == &a6 && &_7 == &a7 && &_8 == &a8 && &_9 == &a9 && &_10 == &a10 && &_11 == &a11 && &_12 == &a12 && &_13 == &a13 && &_14 == &a14 && &_15 == &a15)
    .SIDE_EFFECT((_1 += 1, _2 += 2, _3 += 3, _4 += 4, _5 += 5, _6 += 6, _7 += 7, _8 += 8, _9 += 9, _10 += 10, _11 += 11, _12 += 12, _13 += 13, _14 += 14, _15 += 15))
    .RETURN((_1 += 100, _2 += 100, _3 += 100, _4 += 100, _5 += 100, _6 += 100, _7 += 100, _8 += 100, _9 += 100, _10 += 100, _11 += 100, _12 += 100, _13 += 100, _14 += 100, _15 += 100, _15));
  o.ret = m.w(a1, a2, a3, a4, a5, a6, a7, a8, a9, a10, a11, a12, a13, a14, a15);
  o.v[0] = a1; o.v[1] = a2; o.v[2] = a3; o.v[3] = a4; o.v[4] = a5; o.v[5] = a6; o.v[6] = a7; o.v[7] = a8; o.v[8] = a9; o.v[9] = a10;
  o.v[10] = a11; o.v[11] = a12; o.v[12] = a13; o.v[13] = a14; o.v[14] = a15;
}
// C09: rvalue and move-only arguments, an overloaded mock function, and a mock implementing an interface (called through the base)
struct vp_cnt {
  int v; int* copies;
  vp_cnt(int x, int* c) : v(x), copies(c) {}
  vp_cnt(const vp_cnt& r) : v(r.v), copies(r.copies) { ++*copies; }
  vp_cnt(vp_cnt&& r) : v(r.v), copies(r.copies) { r.v = -1; ++*copies; }
};
struct vp_I {
  virtual ~vp_I() = default;
  virtual int take(vp_cnt&&) = 0;
  virtual int take(int) = 0;
  virtual int up(std::unique_ptr<int>) = 0;
};
struct vp_MI : vp_I {
  MAKE_MOCK1(take, int(vp_cnt&&), override);
  MAKE_MOCK1(take, int(int), override);
  MAKE_MOCK1(up, int(std::unique_ptr<int>), override);
};
void vp_c09_rvalue(int x0, int k, vp_obs& o)
{
  vp_MI m; vp_I& i = m; int copies = 0;
  vp_cnt c(x0, &copies);
  vp_cnt* seen = nullptr;
  REQUIRE_CALL(m, take(ANY(vp_cnt&&))).LR_SIDE_EFFECT(seen = &_1).LR_SIDE_EFFECT(_1.v = _1.v + k).RETURN(_1.v);
  REQUIRE_CALL(m, take(ANY(int))).RETURN(_1 - 1);
  o.ret = i.take(std::move(c));
  o.x = (seen == &c) && copies == 0; o.y = c.v;
  o.extra = i.take(x0);
}
void vp_c09_moveonly(int x0, vp_obs& o)
{
  vp_MI m; vp_I& i = m;
  std::unique_ptr<int> kept;
  REQUIRE_CALL(m, up(trompeloeil::_)).LR_WITH(_1 != nullptr).LR_SIDE_EFFECT(*_1 = *_1 + 1).LR_SIDE_EFFECT(kept = std::move(_1)).RETURN(_1 == nullptr);
  auto p = std::unique_ptr<int>(new int(x0)); int* raw = p.get();
  o.ret = i.up(std::move(p));
  o.x = (kept.get() == raw); o.y = *kept; o.extra = (p == nullptr);
}
void vp_c09_arity15_throw(int b, vp_obs15& o)
{
  using trompeloeil::_;
  vp_M15 m;
  int a1 = b, a2 = b, a3 = b, a4 = b, a5 = b, a6 = b, a7 = b, a8 = b, a9 = b, a10 = b, a11 = b, a12 = b, a13 = b, a14 = b, a15 = b;
  REQUIRE_CALL(m, w(_, _, _, _, _, _, _, _, _, _, _, _, _, _, _))
    .THROW((_1 += 1, _2 += 2, _3 += 3, _4 += 4, _5 += 5, _6 += 6, _7 += 7, _8 += 8, _9 += 9, _10 += 10, _11 += 11, _12 += 12, _13 += 13, _14 += 14, _15 += 15, 7));
  o.ret = 0;
  try { m.w(a1, a2, a3, a4, a5, a6, a7, a8, a9, a10, a11, a12, a13, a14, a15); }
  catch (...) { o.ret = 1; }
  o.v[0] = a1; o.v[1] = a2; o.v[2] = a3; o.v[3] = a4; o.v[4] = a5; o.v[5] = a6; o.v[6] = a7; o.v[7] = a8; o.v[8] = a9; o.v[9] = a10;
  o.v[10] = a11; o.v[11] = a12; o.v[12] = a13; o.v[13] = a14; o.v[14] = a15;
}
// C14: a movable mock is moved; its active and saturated expectations belong to the new object
void vp_c14_move(int x, vp_obs& o)
{
  vp_MM a;
  ALLOW_CALL(a, f(trompeloeil::_)).RETURN(_1 - 1);
  REQUIRE_CALL(a, f(trompeloeil::_)).TIMES(2).RETURN(_1 + 1);
  REQUIRE_CALL(a, g());
  a.g();                       // the g() expectation is saturated now
  o.x = a.f(x);
  vp_MM b = std::move(a);
  o.ret = b.f(x);              // handled by the moved (newest active) expectation, which saturates
  o.y = b.f(x);                // now the older ALLOW_CALL, moved as well, takes over
  o.extra = 0;
  try { b.g(); }               // beyond the upper bound: must be reported against the moved saturated expectation
  catch (...) { o.extra = 1; }
}
// C15/C01: a call rejected because a parameter value does not fit: the no-match report with the actual arguments and the
// expected values of the listed expectation
struct vp_M2 {
  MAKE_MOCK2(p, void(int, int));
};
void vp_c15_param_mismatch(int x, int y, vp_obs& o)
{
  vp_M2 m;
  o.extra = 0;
  REQUIRE_CALL(m, p(5, trompeloeil::_)).LR_SIDE_EFFECT(o.extra = 1);
  try { m.p(x, y); o.ret = 1; }
  catch (...) { o.ret = 0; m.p(5, y); }     // rejected; the expectation is then satisfied by a fitting call
  o.x = x; o.y = y;
}
// C04: an expectation with a plain value operand ends its life unfulfilled: the report gives the expected parameter values
void vp_c04_unfulfilled(int v, int n, vp_obs& o)
{
  vp_M2 m;
  o.ret = 0;
  {
    REQUIRE_CALL(m, p(v, trompeloeil::_)).TIMES(2, 4);
    if (n > 0) m.p(v, 0);
    o.ret = 1;
  }
  o.x = v; o.y = n;
}
// C04: the scope of an unfulfilled expectation is left by an exception (here: the reporter's throw for a call nothing matches)
void vp_c04_unwound(int v, vp_obs& o)
{
  vp_M2 m;
  o.ret = 0; o.x = 0;
  try {
    REQUIRE_CALL(m, p(5, trompeloeil::_)).TIMES(AT_LEAST(1));
    vp_M9 other;
    o.x = 1;
    other.z();                      // no expectation on z(): fatal report, the conforming reporter throws, the block is unwound
    o.x = 2;
  }
  catch (...) { o.ret = 1; }
  o.y = v; o.extra = 0;
}
// C13 through the macros: REQUIRE_DESTRUCTION plumbing (lifetime_monitor_modifier, operator+), expected and unexpected destruction
void vp_c13_macros(bool expect, vp_obs& o)
{
  auto* obj = new trompeloeil::deathwatched<vp_D>();
  std::unique_ptr<trompeloeil::expectation> r;
  if (expect) r = NAMED_REQUIRE_DESTRUCTION(*obj);
  o.x = r ? r->is_satisfied() : -1;
  delete obj;
  o.ret = r ? r->is_satisfied() : -1;
  o.y = r ? r->is_saturated() : -1;
  o.extra = 0;
}
// C17 through the API: a live tracer object and an accepted call of a two-parameter mock function
void vp_c17_trace(int x, int y, vp_obs& o)
{
  vp_M2 m;
  ALLOW_CALL(m, p(trompeloeil::_, trompeloeil::_));
  o.ret = 0;
  {
    vp_tracer t;
    m.p(x, y);
    o.ret = 1;
  }
  m.p(y, x);          // no tracer is alive any more: nothing is traced
  o.x = x; o.y = y; o.extra = 0;
}
// C17 / C18: the trace record of a call whose argument and returned value are null char pointers
struct vp_MS {
  MAKE_MOCK1(s, char const*(char const*));
};
void vp_c17_trace_null(bool isnull, vp_obs& o)
{
  vp_MS m;
  ALLOW_CALL(m, s(trompeloeil::_)).RETURN(_1);
  vp_tracer t;
  char const* in = isnull ? nullptr : "x";
  char const* r = m.s(in);
  o.ret = (r == in); o.x = isnull; o.y = 0; o.extra = 0;
}
// C18 / C15: a no-match report whose actual argument is a null char pointer
void vp_c18_null_report(vp_obs& o)
{
  vp_MS m;
  REQUIRE_CALL(m, s(trompeloeil::ne(nullptr))).RETURN(_1);
  o.ret = 0; o.x = 0;
  try { m.s(nullptr); }
  catch (...) { o.ret = 1; }
  o.x = (m.s("x") != nullptr);
  o.y = 0; o.extra = 0;
}
// C08: THROW - the side effects run first, the exception reaches the caller, the call still counts as handled
void vp_c08_throw(int k, vp_obs& o)
{
  vp_M9 m;
  o.x = 0; o.extra = 0;
  auto e = NAMED_REQUIRE_CALL(m, z()).LR_SIDE_EFFECT(o.x = k).THROW(7);
  try { o.extra = m.z(); o.ret = 0; }
  catch (...) { o.ret = 1; }
  o.y = e->is_saturated() && e->is_satisfied();
}
// C13 / C05: a sequenced REQUIRE_DESTRUCTION through the macros, object destroyed in order or too early
void vp_c13_sequence(bool early, vp_obs& o)
{
  trompeloeil::sequence s; vp_M m;
  auto* obj = new trompeloeil::deathwatched<vp_D>();
  REQUIRE_CALL(m, g()).IN_SEQUENCE(s);
  auto r = NAMED_REQUIRE_DESTRUCTION(*obj).IN_SEQUENCE(s);
  o.x = s.is_completed(); o.extra = 0;
  if (!early) m.g();
  delete obj;
  o.ret = r->is_satisfied();
  o.y = s.is_completed();
}
void vp_build_objects()
{
  vp_M m; trompeloeil::sequence s;
}

// range matchers over a C array (C11, partial): elements are abstract operand matchers / plain values
bool vp_ranges(int (&arr)[3], int (&arr0)[1])
{
  using namespace trompeloeil;
  bool r = true;
  r = param_matches(range_is(vp_abs<1>{}, vp_abs<2>{}, vp_abs<3>{}), std::ref(arr)) && r;
  r = param_matches(range_is(vp_abs<1>{}, vp_abs<2>{}), std::ref(arr)) && r;
  r = param_matches(range_starts_with(vp_abs<1>{}, vp_abs<2>{}), std::ref(arr)) && r;
  r = param_matches(range_ends_with(vp_abs<1>{}, vp_abs<2>{}), std::ref(arr)) && r;
  r = param_matches(range_all_of(vp_abs<1>{}), std::ref(arr)) && r;
  r = param_matches(range_any_of(vp_abs<1>{}), std::ref(arr)) && r;
  r = param_matches(range_none_of(vp_abs<1>{}), std::ref(arr)) && r;
  r = param_matches(range_is(1, 2, 3), std::ref(arr)) && r;
  r = param_matches(range_starts_with(vp_abs<1>{}, vp_abs<2>{}, vp_abs<3>{}), std::ref(arr)) && r;
  r = param_matches(range_ends_with(vp_abs<1>{}, vp_abs<2>{}, vp_abs<3>{}), std::ref(arr)) && r;
  return r;
}

// range_includes / range_is_permutation (C11): std::vector<std::function<bool(const E&)>> of predicate closures
bool vp_ranges2(int (&arr)[3], int (&vals2)[2], int (&vals3)[3])
{
  using namespace trompeloeil;
  bool r = true;
  r = param_matches(range_includes(vals2), std::ref(arr)) && r;
  r = param_matches(range_is_permutation(vals3), std::ref(arr)) && r;
  r = param_matches(range_is(vals3), std::ref(arr)) && r;
  r = param_matches(range_starts_with(vals2), std::ref(arr)) && r;
  r = param_matches(range_ends_with(vals2), std::ref(arr)) && r;
  r = param_matches(range_includes(vp_abs<1>{}, vp_abs<2>{}), std::ref(arr)) && r;
  r = param_matches(range_includes(vp_abs<1>{}, vp_abs<1>{}), std::ref(arr)) && r;
  r = param_matches(range_is_permutation(vp_abs<1>{}, vp_abs<2>{}, vp_abs<3>{}), std::ref(arr)) && r;
  r = param_matches(range_is_permutation(vp_abs<1>{}, vp_abs<2>{}), std::ref(arr)) && r;
  r = param_matches(range_includes(1, 1), std::ref(arr)) && r;
  r = param_matches(range_is_permutation(1, 2, 3), std::ref(arr)) && r;
  return r;
}

// range matchers over a std::vector<int> (any length, incl. empty; the vector is a trusted fixed-capacity model)
bool vp_ranges_vec(std::vector<int>& vec)
{
  using namespace trompeloeil;
  bool r = true;
  r = param_matches(range_is(1, 2, 3), std::ref(vec)) && r;
  r = param_matches(range_starts_with(1, 2), std::ref(vec)) && r;
  r = param_matches(range_ends_with(1, 2), std::ref(vec)) && r;
  r = param_matches(range_includes(1, 2), std::ref(vec)) && r;
  r = param_matches(range_is_permutation(1, 2, 3), std::ref(vec)) && r;
  r = param_matches(range_all_of(vp_abs<1>{}), std::ref(vec)) && r;
  r = param_matches(range_any_of(vp_abs<1>{}), std::ref(vec)) && r;
  r = param_matches(range_none_of(vp_abs<1>{}), std::ref(vec)) && r;
  return r;
}

// C15 / C06 / C05: the text under which a sequenced REQUIRE_DESTRUCTION is registered in its sequence - named (with its own file and
// line) as the first required expectation when a later step of the sequence is called too early
void vp_c13_seq_names(bool early, vp_obs& o)
{
  trompeloeil::sequence s; vp_M m;
  auto* obj = new trompeloeil::deathwatched<vp_D>();
  auto r = NAMED_REQUIRE_DESTRUCTION(*obj).IN_SEQUENCE(s); o.extra = __LINE__;
  REQUIRE_CALL(m, g()).IN_SEQUENCE(s);
  o.ret = 0;
  if (early) { try { m.g(); } catch (...) { o.ret = 1; } }   // the object is still alive: out of sequence, fatal
  delete obj;
  m.g();
  o.x = r->is_satisfied(); o.y = s.is_completed();
}
// ... and listed under that text when the sequence object dies while the requirement is still registered in it
void vp_c13_seq_listing(vp_obs& o)
{
  auto* obj = new trompeloeil::deathwatched<vp_D>();
  {
    std::unique_ptr<trompeloeil::expectation> r;
    {
      trompeloeil::sequence s;
      r = NAMED_REQUIRE_DESTRUCTION(*obj).IN_SEQUENCE(s); o.extra = __LINE__;
      o.x = s.is_completed();
    }                                   // the sequence object dies first: one non-fatal listing
    o.ret = r->is_satisfied();
  }                                     // the requirement ends while the object lives: "still alive"
  delete obj;                           // no requirement is alive any more: unexpected
  o.y = 0;
}

// C17: a mock call made from inside a side effect of a traced call - one record per accepted call, each with its own values
struct vp_MR {
  MAKE_MOCK1(outer, int(int));
  MAKE_MOCK1(inner, unsigned(unsigned));
};
void vp_c17_nested(int x, unsigned u, vp_obs& o)
{
  vp_MR m; unsigned got = 0;
  ALLOW_CALL(m, inner(trompeloeil::_)).RETURN(_1 + 1);
  ALLOW_CALL(m, outer(trompeloeil::_)).LR_SIDE_EFFECT(got = m.inner(u)).RETURN(7);
  vp_tracer t;
  o.ret = m.outer(x);
  o.x = (got == u + 1); o.y = 0; o.extra = 0;
}

} // namespace vp_trompeloeil
