#!/usr/bin/env python3
"""cxx2c: lower instantiated C++ functions of /repo (clang JSON AST) to C for CBMC.

Closed set of node kinds; anything else raises Unsupported (the caller exits 2,
"extraction break", never a VIOLATION).  No function-specific pattern matching:
bodies flow through statement by statement, expression by expression.

Part 1: indexing, types, records.  Part 2 (cxx2c_fn.py): functions/statements/
expressions.  See DESIGN.md section 2.1 for the rules.
"""
import json, re, sys, hashlib

class Unsupported(Exception):
    pass

FUNC_KINDS = ('CXXMethodDecl', 'FunctionDecl', 'CXXConstructorDecl', 'CXXDestructorDecl', 'CXXConversionDecl')
REC_KINDS = ('CXXRecordDecl', 'ClassTemplateSpecializationDecl', 'ClassTemplatePartialSpecializationDecl')

def load_docs(path):
    s = open(path).read()
    dec = json.JSONDecoder(); i = 0; docs = []; n = len(s)
    while i < n:
        while i < n and s[i].isspace(): i += 1
        if i >= n: break
        if s[i] != '{':
            nl = s.find('\n', i); i = nl + 1 if nl >= 0 else n; continue
        o, j = dec.raw_decode(s, i); docs.append(o); i = j
    return docs

def split_top(s, sep=','):
    """split s at top-level separators (outside <>, (), [])"""
    out = []; depth = 0; cur = ''
    i = 0
    while i < len(s):
        ch = s[i]
        if ch in '<([': depth += 1
        elif ch in ')]': depth -= 1
        elif ch == '>' and not (i > 0 and s[i-1] == '-'): depth -= 1
        if ch == sep and depth == 0:
            out.append(cur); cur = ''
        else:
            cur += ch
        i += 1
    if cur.strip() or out: out.append(cur)
    return [x.strip() for x in out]

def norm(t):
    t = re.sub(r'\b(const|volatile|struct|class|typename|enum)\b', '', t)
    t = t.replace('trompeloeil::', '')
    t = t.replace('std::__cxx11::', 'std::')
    return re.sub(r'\s+', '', t)

def sanitize(s):
    return re.sub(r'[^A-Za-z0-9]+', '_', s).strip('_')

def qt(ty):
    return (ty.get('desugaredQualType') or ty.get('qualType') or '').strip()

def ret_of(fnty):
    """return type of a clang-printed function type 'R (params) quals' / 'auto (params) quals -> R'"""
    depth = 0
    for i, ch in enumerate(fnty):
        if ch == '<': depth += 1
        elif ch == '>' and i > 0 and fnty[i-1] != '-': depth -= 1
        elif ch == '(' and depth == 0:
            head = fnty[:i].strip()
            if head == 'auto' and '->' in fnty:
                return fnty.rsplit('->', 1)[1].strip()
            return head
    return fnty.strip()

def params_of(fnty):
    depth = 0; start = None
    for i, ch in enumerate(fnty):
        if ch == '<': depth += 1
        elif ch == '>' and i > 0 and fnty[i-1] != '-': depth -= 1
        elif ch == '(':
            if depth == 0 and start is None: start = i
            depth += 1
        elif ch == ')':
            depth -= 1
            if depth == 0 and start is not None:
                inner = fnty[start+1:i].strip()
                return split_top(inner) if inner else []
    return []

def is_noexcept(fnty):
    tail = fnty.rsplit(')', 1)[-1] if ')' in fnty else ''
    # 'auto (...) const noexcept -> T' : look before '->'
    tail = fnty
    if '->' in fnty: tail = fnty.rsplit('->', 1)[0]
    tail = tail.rsplit(')', 1)[-1]
    return 'noexcept' in tail

BUILTIN = {
    'unsignedint': 'unsigned int', 'unsigned': 'unsigned int', 'int': 'int', 'bool': '_Bool',
    'unsignedlong': 'unsigned long', 'size_t': 'unsigned long', 'std::size_t': 'unsigned long',
    'void': 'void', 'unsignedlonglong': 'unsigned long long', 'longlong': 'long long',
    'char': 'char', 'unsignedchar': 'unsigned char', 'signedchar': 'signed char', 'long': 'long',
    'short': 'short', 'unsignedshort': 'unsigned short', 'std::nullptr_t': 'void *', 'nullptr_t': 'void *',
    'uint8_t': 'unsigned char', 'std::uint8_t': 'unsigned char', 'uint32_t': 'unsigned int', 'uint64_t': 'unsigned long', 'int64_t': 'long', 'int32_t': 'int',
    'std::ptrdiff_t': 'long', 'ptrdiff_t': 'long', 'double': 'double', 'float': 'float',
}

# std:: types mapped to trusted C models (DESIGN 2.1); regex on the normalised name
STD_MODELS = [
    (r'^std::(basic_)?string(<.*>)?$', 'struct vp_string'),
    (r'^string$', 'struct vp_string'),
    (r'^std::(basic_)?o?stringstream(<.*>)?$', 'struct vp_os'),
    (r'^std::(basic_)?ostream(<.*>)?$', 'struct vp_os'),
    (r'^(std::)?ostream$', 'struct vp_os'),
    (r'^std::ios_base$', 'struct vp_os'),
    (r'^std::basic_ios<.*>$', 'struct vp_os'),
    (r'^std::ios$', 'struct vp_os'),
    (r'^(std::)?ostringstream$', 'struct vp_os'),
    (r'^(std::)?unique_lock<.*>$', 'struct vp_lock'),
    (r'^(std::)?atomic<bool>$', '_Bool'),
    (r'^std::exception$', 'struct vp_stdexc'),
    (r'^(std::)?(basic_)?regex(<.*>)?$', 'struct vp_regex'),
    (r'^std::regex_constants::match_flag_type$', 'int'),
    (r'^std::regex_constants::syntax_option_type$', 'int'),
    (r'^std::ios_base::fmtflags$', 'int'),
    (r'^std::_Ios_Fmtflags$', 'int'),
    (r'^std::streamsize$', 'long'),
    (r'^std::function<.*>$', 'struct vp_function'),
    (r'^std::shared_ptr<.*>$', 'struct vp_shared_ptr'),
    (r'^std::_Setw$', 'struct vp_setw'),
    (r'^std::type_info$', 'struct vp_typeinfo'),
    (r'^std::_Mem_fn(_base)?<.*>$', 'struct vp_memfn'),
    (r'^std::allocator<.*>$', 'struct vp_empty'),
    (r'^std::_Setfill<char>$', 'struct vp_setfill'),
]

class Index:
    """all declarations of the dump, by id; records by (several spellings of) name"""
    def __init__(self, docs):
        self.docs = docs
        self.by_id = {}
        self.parent = {}
        for d in docs: self._index(d, None)
        self.defn = {}
        for i, n in list(self.by_id.items()):
            if n.get('kind') in FUNC_KINDS and self.body(n) is not None:
                self.defn[i] = n
                p = n.get('previousDecl')
                while p:
                    self.defn.setdefault(p, n)
                    p = self.by_id.get(p, {}).get('previousDecl')
        self.sugar = {}
        self.ambiguous_sugar = set()
        self._collect_sugar()
        self.tmpl_defaults = {}
        self.tmpl_param_defaults = {}   # template name -> {param index: index of the earlier parameter its default names}
        for i, n in self.by_id.items():
            if n.get('kind') == 'ClassTemplateDecl':
                defs = []; pnames = []
                for c in n.get('inner', []):
                    if c.get('kind') in ('TemplateTypeParmDecl', 'NonTypeTemplateParmDecl'):
                        da = c.get('defaultArg')
                        defs.append(norm(da['type']['qualType']) if da and 'type' in da else None)
                        # `template <size_t L, size_t H = L>`: the default names an earlier parameter
                        if da and da.get('isExpr'):
                            def first_ref(x):
                                if not isinstance(x, dict): return None
                                if x.get('kind') == 'DeclRefExpr': return (x.get('referencedDecl') or {}).get('name')
                                for y in x.get('inner', []):
                                    r = first_ref(y)
                                    if r: return r
                                return None
                            exprs = [x for x in c.get('inner', []) if x.get('kind') == 'TemplateArgument']
                            inner_kinds = [y.get('kind') for x in exprs for y in x.get('inner', [])]
                            ref = first_ref(exprs[0]) if exprs and inner_kinds in (['DeclRefExpr'], ['ImplicitCastExpr']) else None
                            if ref in pnames: self.tmpl_param_defaults.setdefault(n.get('name'), {})[len(defs) - 1] = pnames.index(ref)
                        pnames.append(c.get('name'))
                self.tmpl_defaults[n.get('name')] = defs
        self.rec_by_name = {}
        self.rec_names_cache = {}
        for i, n in self.by_id.items():
            if n.get('kind') in REC_KINDS and n.get('completeDefinition') and n.get('kind') != 'ClassTemplatePartialSpecializationDecl':
                if self.is_template_pattern(n): continue
                for nm in self.rec_names(n):
                    self.rec_by_name.setdefault(nm, n)
        # expanded parameter packs give several ParmVarDecls the same name: make them unique
        for i, n in self.by_id.items():
            if n.get('kind') in FUNC_KINDS:
                ps = [c for c in n.get('inner', []) if isinstance(c, dict) and c.get('kind') == 'ParmVarDecl' and c.get('name')]
                names = [c['name'] for c in ps]
                for k, c in enumerate(ps):
                    if names.count(c['name']) > 1: c['_vp_name'] = '%s_%d' % (c['name'], k)
        self.lambda_by_pos = {}
        for i, n in self.by_id.items():
            if n.get('kind') == 'CXXRecordDecl' and n.get('definitionData', {}).get('isLambda') and n.get('completeDefinition'):
                loc = n.get('loc', {})
                loc = loc.get('expansionLoc', loc) if 'line' not in loc and 'col' not in loc else loc
                self.lambda_by_pos.setdefault((loc.get('line'), loc.get('col')), []).append(n)
        self.enum_by_name = {}
        for i, n in self.by_id.items():
            if n.get('kind') == 'EnumDecl' and n.get('name'):
                self.enum_by_name[norm(self.qualname(n))] = n

    def _index(self, n, parent):
        if not isinstance(n, dict): return
        if 'id' in n:
            old = self.by_id.get(n['id'])
            if old is None or (not old.get('inner') and n.get('inner')):
                self.by_id[n['id']] = n
                self.parent[n['id']] = parent
        for c in n.get('inner', []):
            self._index(c, n if 'id' in n else parent)

    def _collect_sugar(self):
        def walk(n):
            if not isinstance(n, dict): return
            t = n.get('type')
            if isinstance(t, dict) and 'desugaredQualType' in t and 'qualType' in t:
                a = norm(t['qualType']); b = t['desugaredQualType']
                if a != norm(b):
                    # an alias name that stands for different types in different scopes / instantiations (local `using`)
                    # cannot be resolved by name: it is dropped, and a type only known by that name is an extraction break
                    if a in self.sugar and norm(self.sugar[a]) != norm(b): self.ambiguous_sugar.add(a)
                    self.sugar.setdefault(a, b)
            for c in n.get('inner', []): walk(c)
        for d in self.docs: walk(d)
        for a in self.ambiguous_sugar: self.sugar.pop(a, None)

    @staticmethod
    def body(fn):
        for c in fn.get('inner', []):
            if c.get('kind') == 'CompoundStmt': return c
        return None

    def is_template_pattern(self, rec):
        """a CXXRecordDecl that is the pattern of a ClassTemplateDecl, or nested in one"""
        p = self.parent.get(rec.get('id'))
        n = rec
        while p is not None:
            if p.get('kind') in ('ClassTemplateDecl', 'ClassTemplatePartialSpecializationDecl', 'FunctionTemplateDecl') and n.get('kind') == 'CXXRecordDecl':
                return True
            if p.get('kind') == 'ClassTemplatePartialSpecializationDecl': return True
            n = p
            p = self.parent.get(p['id']) if 'id' in p else None
        return False

    def targs(self, rec):
        out = []
        def one(a):
            if 'type' in a: return a['type']['qualType']
            if 'value' in a: return str(a['value'])
            if a.get('inner') is not None and all(x.get('kind') == 'TemplateArgument' for x in a['inner']):
                return ', '.join(one(x) for x in a['inner'])
            if 'isPack' in a or a.get('inner') == []: return ''
            if a.get('inner'):
                x = a['inner'][0]
                if 'value' in x: return str(x['value'])
            return '?'
        for a in rec.get('inner', []):
            if a.get('kind') == 'TemplateArgument':
                out.append(one(a))
        return out

    def name_with_args(self, n, drop_defaults=False):
        nm = n.get('name', '')
        if n.get('kind') == 'ClassTemplateSpecializationDecl':
            args = [norm(a) for a in self.targs(n)]
            if drop_defaults:
                defs = self.tmpl_defaults.get(nm, [])
                while args and len(args) <= len(defs) and defs[len(args)-1] is not None and defs[len(args)-1] == args[-1]:
                    args.pop()
            nm += '<' + ','.join(a for a in args if a != '') + '>'
        return nm

    def qualname(self, n, drop_defaults=False):
        parts = [self.name_with_args(n, drop_defaults)]
        p = self.parent.get(n.get('id'))
        while p is not None:
            if p.get('kind') in ('NamespaceDecl',) + REC_KINDS and p.get('name'):
                if not (p.get('kind') == 'NamespaceDecl' and p.get('isInline')):
                    parts.insert(0, self.name_with_args(p, drop_defaults))
            p = self.parent.get(p['id']) if 'id' in p else None
        return '::'.join(parts)

    def rec_names(self, rec):
        if rec['id'] in self.rec_names_cache: return self.rec_names_cache[rec['id']]
        names = set()
        def find_this(n):
            if n.get('kind') == 'CXXThisExpr':
                names.add(norm(qt(n['type']).rstrip('*').strip()))
                return True
            return any(find_this(c) for c in n.get('inner', []) if isinstance(c, dict))
        for m in rec.get('inner', []):
            if m.get('kind') in FUNC_KINDS:
                d = self.defn.get(m['id'])
                if d is not None and find_this(d): break
        for dd in (False, True):
            if not rec.get('name'): break          # closure types: named by source position only
            q = norm(self.qualname(rec, dd))
            names.add(q)
            # clang's -ast-dump-filter drops the namespace parent of top-level matches: the driver's own helper
            # types live in namespace vp_trompeloeil (normalised prefix 'vp_')
            names.add('vp_' + q)
        if rec.get('kind') == 'CXXRecordDecl' and not rec.get('name'):
            # lambda closure / anonymous: name by source location
            names.add('anon_' + rec['id'])
        self.rec_names_cache[rec['id']] = names
        return names

    def resolve(self, q):
        """normalised type name -> normalised desugared name (alias templates etc.)"""
        seen = set()
        while q in self.sugar and q not in seen and q not in self.rec_by_name:
            seen.add(q)
            q = norm(self.sugar[q])
        return q

    def find_rec(self, tystr):
        n = norm(tystr)
        r = self.rec_by_name.get(n)
        if r is None:
            r = self.rec_by_name.get(self.resolve(n))
        return r

    def is_polymorphic(self, rec):
        return bool(rec.get('definitionData', {}).get('isPolymorphic'))

    def bases(self, rec):
        out = []
        for b in rec.get('bases', []):
            br = self.find_rec(qt(b['type']))
            out.append((b, br))
        return out

    def methods(self, rec):
        return [m for m in rec.get('inner', []) if m.get('kind') in FUNC_KINDS]

    def fields(self, rec):
        return [f for f in rec.get('inner', []) if f.get('kind') == 'FieldDecl']

    def dtor_of(self, rec):
        for m in rec.get('inner', []):
            if m.get('kind') == 'CXXDestructorDecl': return m
        return None

    def base_path(self, rec, target):
        """member path (list of '_bK') from rec down to base subobject target, or None"""
        if rec['id'] == target['id']: return []
        for k, (b, br) in enumerate(self.bases(rec)):
            if br is None: continue
            sub = self.base_path(br, target)
            if sub is not None: return ['_b%d' % k] + sub
        return None

    def poly_root_paths(self, rec):
        """paths to every polymorphic root subobject (the ones that carry vp_tag)"""
        out = []
        has_poly_base = False
        for k, (b, br) in enumerate(self.bases(rec)):
            if br is not None and self.is_polymorphic(br):
                has_poly_base = True
                for p in self.poly_root_paths(br): out.append(['_b%d' % k] + p)
        if self.is_polymorphic(rec) and not has_poly_base:
            out.append([])
        return out
