import json,sys
def load(path):
    s=open(path).read()
    dec=json.JSONDecoder(); i=0; docs=[]
    n=len(s)
    while i < n:
        while i<n and s[i].isspace(): i+=1
        if i>=n: break
        if s[i]!='{':
            nl=s.find('\n',i); i=nl+1 if nl>=0 else n; continue
        o,j=dec.raw_decode(s,i); docs.append(o); i=j
    return docs
if __name__=='__main__':
    docs=load(sys.argv[1])
    print(len(docs))
    from collections import Counter
    print(Counter(d.get('kind') for d in docs))
    for d in docs:
        if d.get('kind') in ('CXXMethodDecl','FunctionDecl','CXXDestructorDecl','CXXConstructorDecl'):
            print(d['kind'], d.get('name'), d.get('type',{}).get('qualType','')[:80], 'body' if any(c.get('kind')=='CompoundStmt' for c in d.get('inner',[])) else '')
