#!/bin/bash
# run_seed_on_repo.sh <seed-id> <prop>... : the recorded run: apply the seeded change to /repo itself, run the checks, undo.
# Location independent (works from a `vp run` snapshot of /verif); the log goes to /verif/seeded/<id>/checks.log.
ID=$1; shift
HERE=$(cd "$(dirname "$0")/.." && pwd)
cd "$HERE"
git -C /repo status --porcelain --untracked-files=no | grep -q . && { echo "/repo not clean"; exit 2; }
git -C /repo apply /verif/seeded/$ID/patch.diff || { echo "patch failed"; exit 2; }
trap 'git -C /repo checkout -- .' EXIT
: > /verif/seeded/$ID/checks.log
for P in "$@"; do
  ./check $P 2>&1 | grep -v "^WARNING" | grep "VIOLATION\|UNDECIDED\|KNOWN\|tier=" | cut -c1-300 | sed "s/^/[$ID] /" >> /verif/seeded/$ID/checks.log
done
git -C /repo checkout -- .
trap - EXIT
cat /verif/seeded/$ID/checks.log
