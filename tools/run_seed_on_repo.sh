#!/bin/bash
# run_seed_on_repo.sh <seed-id> <prop>... : the recorded run: apply the seeded change to /repo itself, run the checks, undo.
ID=$1; shift
cd /verif
git -C /repo status --porcelain --untracked-files=no | grep -q . && { echo "/repo not clean"; exit 2; }
git -C /repo apply /verif/seeded/$ID/patch.diff || { echo "patch failed"; exit 2; }
: > /verif/seeded/$ID/checks.log
for P in "$@"; do
  ./check $P 2>&1 | grep -v "^WARNING" | grep "VIOLATION\|UNDECIDED\|KNOWN\|tier=" | cut -c1-300 | sed "s/^/[$ID] /" >> /verif/seeded/$ID/checks.log
done
git -C /repo checkout -- .
cat /verif/seeded/$ID/checks.log
