#!/usr/bin/env python3
"""CLI: lower.py <ast.json> <unit.json> <out.h> <out.c> [<stats.json>]"""
import sys, json, os, pickle, time
sys.path.insert(0, os.path.dirname(os.path.abspath(__file__)))
sys.setrecursionlimit(10000)
from cxx2c import load_docs, Index, Unsupported
from cxx2c_fn import Lower

def get_index(ast_path):
    import hashlib
    pk = ast_path + '.idx-%s.pickle' % hashlib.sha256(open(os.path.join(os.path.dirname(os.path.abspath(__file__)), 'cxx2c.py'), 'rb').read()).hexdigest()[:10]
    if os.path.exists(pk) and os.path.getmtime(pk) >= os.path.getmtime(ast_path):
        try:
            with open(pk, 'rb') as f: return pickle.load(f)
        except Exception: pass
    idx = Index(load_docs(ast_path))
    try:
        with open(pk + '.tmp%d' % os.getpid(), 'wb') as f: pickle.dump(idx, f, protocol=pickle.HIGHEST_PROTOCOL)
        os.replace(pk + '.tmp%d' % os.getpid(), pk)
    except Exception: pass
    return idx

def main():
    ast, unit, outh, outc = sys.argv[1:5]
    cfg = json.load(open(unit))
    idx = get_index(ast)
    L = Lower(idx, cfg)
    try:
        h, c = L.run(cfg['roots'])
    except Unsupported as u:
        print('EXTRACTION-BREAK: %s' % u, file=sys.stderr); sys.exit(2)
    open(outh, 'w').write(h); open(outc, 'w').write(c)
    if len(sys.argv) > 5:
        st = L.stats
        json.dump({'functions': st['functions'], 'node_kinds': st['node_kinds'], 'std_models': sorted(st['std_models']), 'externals': sorted(st['externals']), 'stubs': sorted(L.stubs.keys()), 'loop_bounds': st.get('loop_bounds', [])}, open(sys.argv[5], 'w'), indent=1)

if __name__ == '__main__':
    main()
