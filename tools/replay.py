"""replay.py - run a CBMC counterexample against the real C++ headers (DESIGN.md 11)."""
def try_replay(pid, r, fails, vals, rdir):
    return False
