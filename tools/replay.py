"""replay.py - run a CBMC counterexample of a `world.*` obligation against the REAL C++ headers (DESIGN.md 11).

The counterexample is a well-formed state of one mock function (which list each expectation is in, bounds, counts,
WITH results, sequence membership, which handles are still registered) plus the operation.  The generator
 1. shrinks the 64-bit bounds/counts to small values with the same order relations (count>=min, count+1==max,
    max==0, min==1, count in {0,1,>=2});
 2. builds the state through the PUBLIC API only (NAMED_REQUIRE_CALL ... LR_WITH ... IN_SEQUENCE ... RT_TIMES ...
    LR_SIDE_EFFECT ... LR_RETURN, then set-up calls that only the intended expectation accepts), checks through
    is_satisfied()/is_saturated()/is_completed() that the state was reached (else: not constructible, exit 2);
 3. performs the operation and compares what the property promises for that state (computed here from the property
    text, same rule as harness/world.h spec_*) with what the real library does.
Program exit code: 1 = the real code breaks the property on this input (violation reproduced), 0 = it behaves as
the property says (not reproduced), 2 = state not constructible through the API.
Returns True only when the violation was reproduced."""
import os, re, json, subprocess

REPO = os.environ.get('VP_REPO', '/repo')

def _get(vals, name, *idx):
    key = name + ''.join('[%dl]' % i for i in idx)
    v = vals.get(key)
    if v is None: return None
    if v in ('TRUE', 'FALSE'): return v == 'TRUE'
    m = re.match(r'^(-?\d+)', str(v))
    return int(m.group(1)) if m else None

def shrink(mn, cnt, mx):
    """smallest (min,count,max) with the same relations"""
    want = (cnt >= mn, mx == 0, cnt + 1 == mx, cnt == mx, mn == 0, mn == 1, min(cnt, 2), mn <= mx, cnt < mx)
    for M in range(0, 6):
        for m in range(0, M + 1):
            for c in range(0, M + 1):
                if (c >= m, M == 0, c + 1 == M, c == M, m == 0, m == 1, min(c, 2), m <= M, c < M) == want: return m, c, M
    return None

def try_replay(pid, r, fails, vals, rdir):
    name = r['name']
    m = re.match(r'^world(_mv)?\.(call\.mock_func|find\.[a-z_.]+|dtor\.expectation_lifetime_ends|mockdtor\.[a-z_]+|seqdtor\.sequence_object_dies)#N(\d)\.([ASD]+)(?:\.T(\d))?', name)
    if not m:
        open(os.path.join(rdir, 'replay_note.txt'), 'w').write('no C++ replay template for obligation %s; the counterexample is in violation.json\n' % name)
        return False
    movable = bool(m.group(1)); N = int(m.group(3)); where = ['ASD'.index(ch) for ch in m.group(4)]
    op = 'call' if m.group(2).startswith(('call', 'find')) else m.group(2).split('.')[0]
    target = int(m.group(5)) if m.group(5) else 0
    st = []
    for i in range(N):
        mn, cnt, mx = _get(vals, 'in_min', i), _get(vals, 'in_cnt', i), _get(vals, 'in_max', i)
        if None in (mn, cnt, mx): return _note(rdir, 'counterexample lacks bounds of expectation %d' % i)
        s = shrink(mn, cnt, mx)
        if s is None: return _note(rdir, 'bounds of expectation %d cannot be shrunk' % i)
        K = _get(vals, 'in_K', i) or 0
        nc = _get(vals, 'in_ncond', i) or 0
        st.append({'where': where[i], 'min': s[0], 'cnt': s[1], 'max': s[2], 'K': K, 'seq0': _get(vals, 'in_seq0', i) or 0,
                   'linked': [bool(_get(vals, 'in_linked', i, 0)), bool(_get(vals, 'in_linked', i, 1))],
                   'cres': [bool(_get(vals, 'in_cres', i, c)) for c in range(nc)], 'reported': bool(_get(vals, 'in_reported', i)),
                   'nact': _get(vals, 'in_nact', i) or 0, 'athrow': [(_get(vals, 'in_athrow', i, a) or 0) for a in range(2)],
                   'rthrow': _get(vals, 'in_rthrow', i) or 0})
    if any(e['where'] == 2 for e in st): return _note(rdir, 'state has an expectation whose mock was destroyed first: not expressible in the call replay')
    rep_all = any(e['reported'] for e in st)
    if rep_all and not all(e['reported'] == (e['where'] == 0) for e in st):
        return _note(rdir, 'state needs an earlier violation report naming only some expectations: not expressible in the replay')
    for e in st: e['rep_all'] = rep_all
    # the set-up history (oldest expectation first, `cnt` calls each) must lead to exactly the registered-handle state
    # of the counterexample; simulated here with the property's semantics, otherwise the state is not constructible
    def seq_of(i, k): return st[i]['seq0'] if k == 0 else 1 - st[i]['seq0']
    link = [[k < st[i]['K'] for k in range(2)] for i in range(N)]; cur = [0] * N
    for i in range(N - 1, -1, -1):
        for _ in range(st[i]['cnt']):
            for k in range(st[i]['K']):
                if not link[i][k]: return _note(rdir, 'set-up history impossible: expectation %d already passed in a sequence' % i)
                for j in range(N - 1, i, -1):
                    for kk in range(st[j]['K']):
                        if seq_of(j, kk) == seq_of(i, k) and link[j][kk] and cur[j] < st[j]['min']:
                            return _note(rdir, 'set-up history impossible: expectation %d is behind an unsatisfied predecessor' % i)
            cur[i] += 1
            for k in range(st[i]['K']):
                for j in range(N - 1, i, -1):
                    for kk in range(st[j]['K']):
                        if seq_of(j, kk) == seq_of(i, k): link[j][kk] = False
                if cur[i] == st[i]['max']: link[i][k] = False
    for i in range(N):
        for k in range(st[i]['K']):
            if link[i][k] != st[i]['linked'][k]:
                return _note(rdir, 'the registered-handle state of the counterexample (expectation %d, handle %d) is not the one the canonical set-up history produces' % (i, k))
    src = gen_call_program(N, st, movable, op, target)
    for old in ('replay_note.txt', 'replay_output.txt'):
        try: os.remove(os.path.join(rdir, old))
        except OSError: pass
    cpp = os.path.join(rdir, 'replay.cpp'); open(cpp, 'w').write(src)
    exe = os.path.join(rdir, 'replay_bin')
    c = subprocess.run(['g++', '-std=c++14', '-I' + os.path.join(REPO, 'include'), cpp, '-o', exe], capture_output=True, text=True)
    open(os.path.join(rdir, 'run_replay.sh'), 'w').write('#!/bin/sh\ng++ -std=c++14 -I%s/include %s -o %s && %s\n' % (REPO, cpp, exe, exe))
    os.chmod(os.path.join(rdir, 'run_replay.sh'), 0o755)
    if c.returncode != 0:
        return _note(rdir, 'replay program does not compile:\n' + c.stderr[-2000:])
    try:
        x = subprocess.run([exe], capture_output=True, text=True, timeout=60)
    except subprocess.TimeoutExpired:
        return _note(rdir, 'replay program timed out')
    open(os.path.join(rdir, 'replay_output.txt'), 'w').write('exit %d\n%s\n%s' % (x.returncode, x.stdout, x.stderr))
    try: os.remove(exe)
    except OSError: pass
    return x.returncode == 1

def _note(rdir, text):
    open(os.path.join(rdir, 'replay_note.txt'), 'w').write(text + '\n'); return False

def gen_call_program(N, st, movable, op='call', target=0):
    """C++14 program: build the state, call f(x), compare with the property"""
    L = []
    L.append('// generated by /verif/tools/replay.py from a CBMC counterexample: state of one mock function, then one call')
    L.append('#include <trompeloeil.hpp>\n#include <cstdio>\n#include <cstdlib>\n#include <memory>\n#include <string>\n#include <vector>\n#include <stdexcept>')
    L.append('using trompeloeil::_;')
    L.append('struct fatal_report {};\nstruct user_exc : std::runtime_error { user_exc() : std::runtime_error("user") {} };')
    L.append('struct Rep { bool fatal; unsigned long line; std::string msg; };\nstatic std::vector<Rep> reps; static std::vector<std::string> oks; static std::vector<std::string> events;')
    L.append('struct M { %sMAKE_MOCK1(f, int(int)); };' % ('static constexpr bool trompeloeil_movable_mock = true; ' if movable else ''))
    L.append('static int setup_target = -1; static bool final_call = false;')
    L.append('#define CHECK(c, what) do { if (!(c)) { std::printf("PROPERTY BROKEN on the real code: %s\\n", what); broken = true; } } while (0)')
    L.append('#define NEED(c, what) do { if (!(c)) { std::printf("state not constructible through the API: %s\\n", what); return 2; } } while (0)')
    L.append('int main()\n{')
    L.append('  trompeloeil::set_reporter([](trompeloeil::severity s, char const*, unsigned long line, std::string const& msg) { reps.push_back({s == trompeloeil::severity::fatal, line, msg}); if (s == trompeloeil::severity::fatal) throw fatal_report{}; },')
    L.append('                            [](char const* msg) { oks.push_back(msg); });')
    L.append('  bool broken = false;\n  std::unique_ptr<M> mp(new M); M& m = *mp;\n  std::unique_ptr<trompeloeil::sequence> s0p(new trompeloeil::sequence), s1p(new trompeloeil::sequence); trompeloeil::sequence& s0 = *s0p; trompeloeil::sequence& s1 = *s1p;')
    for i in range(N):
        for c, v in enumerate(st[i]['cres']): L.append('  bool c_%d_%d = %s;' % (i, c, 'true' if v else 'false'))
    L.append('  unsigned long line_of[%d];' % N)
    # creation oldest first (index N-1 .. 0); expectation i's text is f(((_))) with i+1 pairs of parentheses
    for i in range(N - 1, -1, -1):
        e = st[i]
        arg = '(' * i + '_' + ')' * i
        s = '  line_of[%d] = __LINE__; std::unique_ptr<trompeloeil::expectation> e%d = NAMED_REQUIRE_CALL(m, f(%s))' % (i, i, arg)
        if not e['cres']: s += '.LR_WITH(final_call || setup_target == %d)' % i
        for c in range(len(e['cres'])): s += '.LR_WITH(final_call ? c_%d_%d : setup_target == %d)' % (i, c, i)
        for a in range(e['nact']):
            s += '.LR_SIDE_EFFECT(if (final_call) { events.push_back("A%d.%d"); %s })' % (i, a, 'throw user_exc();' if e['athrow'][a] else '')
        if e['K'] >= 1:
            seqs = ['s%d' % e['seq0']] + (['s%d' % (1 - e['seq0'])] if e['K'] == 2 else [])
            s += '.IN_SEQUENCE(%s)' % ', '.join(seqs)
        s += '.RT_TIMES(%d, %d)' % (e['min'], e['max'])
        s += '.LR_RETURN((final_call ? (%s, events.push_back("R%d")) : void(), %d));' % ('throw user_exc()' if e['rthrow'] else 'void()', i, 7000 + i)
        L.append(s)
    # set-up calls: oldest first so that sequence order is respected
    for i in range(N - 1, -1, -1):
        if st[i]['cnt'] > 0:
            L.append('  setup_target = %d; for (int k = 0; k < %d; ++k) { try { m.f(0); } catch (fatal_report&) { NEED(false, "a set-up call was rejected"); } }' % (i, st[i]['cnt']))
    L.append('  setup_target = -1; NEED(reps.empty(), "set-up produced a report"); oks.clear();')
    if st and st[0].get('rep_all'):
        L.append('  // an earlier call that nothing matches: its report names every live expectation')
        L.append('  setup_target = -2; try { m.f(0); NEED(false, "the no-match set-up call was accepted"); } catch (fatal_report&) {} setup_target = -1; reps.clear();')
    for i in range(N):
        e = st[i]
        L.append('  NEED(e%d->is_satisfied() == %s && e%d->is_saturated() == %s, "bounds/count of expectation %d");' % (i, 'true' if e['cnt'] >= e['min'] else 'false', i, 'true' if e['cnt'] == e['max'] else 'false', i))
    # which handles are still registered cannot be observed directly; is_completed() gives a necessary condition
    for s in (0, 1):
        comp = all(st[i]['cnt'] >= st[i]['min'] for i in range(N) for k in range(st[i]['K']) if (st[i]['seq0'] if k == 0 else 1 - st[i]['seq0']) == s and st[i]['linked'][k])
        L.append('  NEED(s%d.is_completed() == %s, "registered handles of sequence %d");' % (s, 'true' if comp else 'false', s))
    # expected outcome by the property (selection rule of C02)
    def seq_of(i, k): return st[i]['seq0'] if k == 0 else 1 - st[i]['seq0']
    def sat(i): return st[i]['cnt'] >= st[i]['min']
    def cost1(i, k):
        if not st[i]['linked'][k]: return None
        s = seq_of(i, k); c = 0
        for j in range(N - 1, i, -1):
            for kk in range(st[j]['K']):
                if seq_of(j, kk) == s and st[j]['linked'][kk]:
                    if not sat(j): return None
                    c += 1
        return c
    def cost(i):
        cs = [cost1(i, k) for k in range(st[i]['K'])]
        if any(c is None for c in cs): return 1 << 40
        return max(cs) if cs else 0
    cand = None
    for i in range(N):
        if st[i]['where'] == 0 and all(st[i]['cres']):
            if cand is None or cost(i) < cost(cand): cand = i
    accepted = cand is not None and st[cand]['max'] != 0 and cost(cand) < (1 << 40)
    if op != 'call':
        pend = lambda i: st[i]['cnt'] < st[i]['min'] and not st[i]['reported']     # already named in an earlier report => silent
        if op == 'dtor':
            L.append('  // ---- the expectation\'s lifetime ends')
            L.append('  e%d.reset();' % target)
            L.append('  CHECK(reps.size() == %d, "end of lifetime: exactly one report iff the lower bound was missed");' % (1 if pend(target) else 0))
            if pend(target): L.append('  CHECK(!reps.empty() && !reps[0].fatal && reps[0].line == line_of[%d], "the report is non-fatal and carries the expectation\'s location");' % target)
            for i in range(N):
                if i != target: L.append('  CHECK(e%d->is_satisfied() == %s && e%d->is_saturated() == %s, "other expectations are untouched (expectation %d)");' % (i, 'true' if st[i]['cnt'] >= st[i]['min'] else 'false', i, 'true' if st[i]['cnt'] == st[i]['max'] else 'false', i))
        elif op == 'mockdtor':
            L.append('  // ---- the mock object dies first, the expectations are released later')
            L.append('  mp.reset();')
            L.append('  CHECK(reps.size() == %d, "mock destruction: one report per pending expectation");' % sum(1 for i in range(N) if pend(i)))
            L.append('  for (auto& r : reps) CHECK(!r.fatal, "reports from a destructor are non-fatal");')
            for i in range(N):
                if pend(i): L.append('  { int hits = 0; for (auto& r : reps) if (r.line == line_of[%d]) ++hits; CHECK(hits == 1, "exactly one report carries the location of pending expectation %d"); }' % (i, i))
            L.append('  size_t before = reps.size();')
            L.append('  ' + ' '.join('e%d.reset();' % i for i in range(N)))
            L.append('  CHECK(reps.size() == before, "no shortfall is reported twice when the expectation is released later");')
        elif op == 'seqdtor':
            pending0 = sum(1 for i in range(N) for k in range(st[i]['K']) if (st[i]['seq0'] if k == 0 else 1 - st[i]['seq0']) == 0 and st[i]['linked'][k])
            L.append('  // ---- the sequence object dies while expectations may still be registered in it')
            L.append('  s0p.reset();')
            L.append('  CHECK(reps.size() == %d, "sequence destruction: one report iff expectations are still registered");' % (1 if pending0 else 0))
            L.append('  for (auto& r : reps) CHECK(!r.fatal, "reports from a destructor are non-fatal");')
        L.append('  std::printf(broken ? "REPLAY: violation reproduced on the real headers\\n" : "REPLAY: the real code behaves as the property says on this input\\n");')
        L.append('  reps.clear(); std::fflush(stdout); std::_Exit(broken ? 1 : 0);   // leave without running further destructors')
        L.append('}')
        return '\n'.join(L) + '\n'
    L.append('  // ---- the call under test')
    L.append('  final_call = true; bool fatal = false, user = false; int ret = -1;')
    L.append('  try { ret = m.f(1); } catch (fatal_report&) { fatal = true; } catch (user_exc&) { user = true; }')
    if not accepted:
        L.append('  CHECK(fatal && reps.size() == 1 && reps[0].fatal, "a call without an eligible non-forbidding candidate is exactly one fatal report");')
        if cand is not None:
            L.append('  CHECK(reps.size() >= 1 && reps[0].line == line_of[%d], "the violation report carries the location of the designated candidate (expectation %d)");' % (cand, cand))
        L.append('  CHECK(oks.empty(), "a rejected call produces no OK report");')
        L.append('  CHECK(events.empty(), "a rejected call evaluates no side effect / return expression");')
        for i in range(N):
            e = st[i]
            L.append('  CHECK(e%d->is_satisfied() == %s && e%d->is_saturated() == %s, "a rejected call changes no call count (expectation %d)");' % (i, 'true' if e['cnt'] >= e['min'] else 'false', i, 'true' if e['cnt'] == e['max'] else 'false', i))
    else:
        e = st[cand]
        exp_events = []; threw = False
        for a in range(e['nact']):
            exp_events.append('A%d.%d' % (cand, a))
            if e['athrow'][a]: threw = True; break
        if not threw:
            exp_events.append('R%d' % cand)
            if e['rthrow']: threw = True
        L.append('  CHECK(!fatal && reps.empty(), "a call with an eligible candidate is accepted without a report");')
        L.append('  { std::vector<std::string> want = {%s}; CHECK(events == want, "exactly the side effects and return expression of the designated expectation run, in order"); }' % ', '.join('"%s"' % x for x in exp_events))
        if not threw: L.append('  CHECK(ret == %d, "the caller receives the designated expectation\'s value");' % (7000 + cand))
        else: L.append('  CHECK(user, "the caller receives the clause\'s exception");')
        L.append('  CHECK(oks.size() == 1 && oks[0].find("f(%s)") != std::string::npos, "exactly one OK report naming the handling expectation");' % ('(' * cand + '_' + ')' * cand))
        for i in range(N):
            c2 = st[i]['cnt'] + (1 if i == cand else 0)
            L.append('  CHECK(e%d->is_satisfied() == %s && e%d->is_saturated() == %s, "only the handling expectation\'s count advances (expectation %d)");' % (i, 'true' if c2 >= st[i]['min'] else 'false', i, 'true' if c2 == st[i]['max'] else 'false', i))
    L.append('  std::printf(broken ? "REPLAY: violation reproduced on the real headers\\n" : "REPLAY: the real code behaves as the property says on this input\\n");')
    L.append('  e0.reset();' + ''.join(' e%d.reset();' % i for i in range(1, N)))
    L.append('  return broken ? 1 : 0;\n}')
    return '\n'.join(L) + '\n'
