#!/usr/bin/env python3
"""guards.py - C19: extract the static_assert guards of the expectation-clause functions from the clang AST of
/repo and generate a C obligation "extracted condition <=> documented legality condition" for CBMC.

What is extracted mechanically (every run): for each target function template PATTERN, in order, the
`constexpr bool` locals (name, initialiser) and the static_assert declarations (condition, message).  The boolean
skeleton (!, &&, ||, ==, >, >=, parentheses, literals, references to locals and non-type template parameters) is
taken from the AST.  Dependent leaves (`Parent::throws`, `std::is_same<...>::value`, ...) have no resolvable
structure in the AST, so they are taken as SOURCE TEXT and mapped through the atom table below to fields of an
abstract clause type-state; an unknown atom or a static_assert without an oracle entry is an extraction break
(exit 2), never a violation.  What is dropped: the types themselves (each type trait is a free boolean)."""
import re, os, sys, json

# atom table: normalised source text -> C expression over the abstract state `S`
ATOMS = [
    (r'^Parent::throws$|^call::throws$', 'S.throws'),
    (r'^Parent::side_effects$', 'S.side_effects'),
    (r'^Parent::sequence_set$', 'S.sequence_set'),
    (r'^Parent::call_limit_set$', 'S.call_limit_set'),
    (r'^Parent::upper_call_limit$|^call::upper_call_limit$|^upper_call_limit$', 'S.upper'),
    (r'^std::is_same<typenameParent::return_type,void>::value$|^std::is_same<return_type,void>::value$', '(!S.has_return)'),
    (r'^std::is_same<co_return_type,void>::value$', '(!S.has_co_return)'),
    (r'^trompeloeil::is_coroutine<sigret>::value$|^trompeloeil::is_coroutine<return_of_t<signature>>::value$', 'S.is_coroutine'),
    (r'^std::is_same<detail::decay_t<ret>,illegal_argument>::value$', 'S.illegal_type'),
    (r'^std::is_same<sigret,void>::value$', 'S.void_sig'),
    (r'^std::is_pointer<sigret>::value$', 'S.ptr_sigret'),
    (r'^std::is_pointer<detail::decay_t<ret>>::value$', 'S.ptr_ret'),
    (r'^std::is_const<detail::remove_pointer_t<sigret>>\{\}$', 'S.const_pointee_sigret'),
    (r'^std::is_const<detail::remove_pointer_t<detail::decay_t<ret>>>\{\}$', 'S.const_pointee_ret'),
    (r'^std::is_reference<sigret>::value$', 'S.ref_sigret'),
    (r'^std::is_reference<ret>::value$', 'S.ref_ret'),
    (r'^std::is_const<detail::remove_reference_t<sigret>>::value$', 'S.const_referee_sigret'),
    (r'^std::is_const<detail::remove_reference_t<ret>>::value$', 'S.const_referee_ret'),
    (r'^std::is_constructible<sigret,ret>::value$', 'S.constructible'),
    (r'^std::is_same<ret,sigret>::value$', 'S.ret_is_sigret'),
    (r'^std::is_same<coret,sigret>::value$', 'S.coret_is_sigret'),
    (r'^std::is_same<Sig,void>::value$', 'S.sig_is_void_type'),
]
STATE = ['_Bool throws', '_Bool side_effects', '_Bool sequence_set', '_Bool call_limit_set', 'unsigned long upper', '_Bool has_return', '_Bool has_co_return',
         '_Bool is_coroutine', '_Bool illegal_type', '_Bool void_sig', '_Bool ptr_sigret', '_Bool ptr_ret', '_Bool const_pointee_sigret', '_Bool const_pointee_ret',
         '_Bool ref_sigret', '_Bool ref_ret', '_Bool const_referee_sigret', '_Bool const_referee_ret', '_Bool constructible', '_Bool ret_is_sigret', '_Bool coret_is_sigret',
         '_Bool sig_is_void_type', 'unsigned long L', 'unsigned long H', '_Bool b']
# non-type template parameters -> state
TPARAMS = {'L': 'S.L', 'H': 'S.H', 'times_set': 'S.call_limit_set', 'b': 'S.b'}

TARGETS = [  # (alias, record name, function name)
    ('times', 'times', 'action'), ('runtime_times', 'runtime_times', 'action'), ('in_sequence', 'call_modifier', 'in_sequence'),
    ('sideeffect', 'sideeffect', 'action'), ('handle_return', 'handle_return', 'action'), ('handle_throw', 'handle_throw', 'action'),
    ('make_expectation', 'call_validator_t', 'operator+'), ('monitor_in_sequence', 'lifetime_monitor_modifier', 'in_sequence'),
]

class Break(Exception): pass

class Extract:
    def __init__(self, idx, repo):
        self.idx = idx
        self.files = {}
        for f in ('mock.hpp', 'lifetime.hpp', 'sequence.hpp'):
            self.files[f] = open(os.path.join(repo, 'include', 'trompeloeil', f), 'rb').read()

    def text(self, n, hint=None):
        r = n.get('range', {}); b = r.get('begin', {}); e = r.get('end', {})
        b = b.get('expansionLoc', b); e = e.get('expansionLoc', e)
        if 'offset' not in b or 'offset' not in e: raise Break('node without source offsets')
        lo, hi = b['offset'], e['offset'] + e.get('tokLen', 0)
        return lo, hi

    def find_pattern(self, rec_name, fn_name):
        out = []
        for i, n in self.idx.by_id.items():
            if n.get('kind') in ('CXXRecordDecl',) and n.get('name') == rec_name and n.get('completeDefinition'):
                if self.idx.parent.get(i, {}) and self.idx.parent[i].get('kind') == 'ClassTemplateSpecializationDecl': continue
                for c in n.get('inner', []):
                    if c.get('kind') == 'FunctionTemplateDecl' and c.get('name') == fn_name:
                        pats = [x for x in c['inner'] if x.get('kind') in ('CXXMethodDecl', 'FunctionDecl') and self.idx.body(x) is not None]
                        if pats: out.append((c, pats[0]))
        # a class template's pattern record and its specialisations all contain the member template; take patterns
        # whose static_asserts still have dependent conditions = the first (pattern) one by source offset
        uniq = {}
        for c, p in out:
            off = p.get('range', {}).get('begin', {}).get('offset')
            uniq.setdefault(off, (c, p))
        if len(uniq) != 1: raise Break('%s::%s: %d patterns found' % (rec_name, fn_name, len(uniq)))
        return list(uniq.values())[0]

    def file_of(self, sa):
        lo, hi = self.text(sa)
        for f, data in self.files.items():
            if data[lo:lo + 13] == b'static_assert': return f
        raise Break('source file of a static_assert not identified')

    def atom(self, n, fname):
        lo, hi = self.text(n)
        src = self.files[fname][lo:hi].decode()
        key = re.sub(r'\s+', '', src)
        for pat, c in ATOMS:
            if re.match(pat, key): return c
        raise Break('unknown guard atom %r' % src)

    def expr(self, n, fname, locals_):
        k = n.get('kind')
        if k in ('ParenExpr',): return '(%s)' % self.expr(n['inner'][0], fname, locals_)
        if k in ('ImplicitCastExpr', 'ConstantExpr', 'ExprWithCleanups', 'CXXFunctionalCastExpr', 'CXXStaticCastExpr') and k != 'CXXUnresolvedConstructExpr':
            return self.expr(n['inner'][-1], fname, locals_)
        if k == 'UnaryOperator' and n.get('opcode') == '!': return '(!%s)' % self.expr(n['inner'][0], fname, locals_)
        if k == 'BinaryOperator' and n.get('opcode') in ('&&', '||', '==', '!=', '>', '>=', '<', '<='):
            return '(%s %s %s)' % (self.expr(n['inner'][0], fname, locals_), n['opcode'], self.expr(n['inner'][1], fname, locals_))
        if k == 'IntegerLiteral': return n['value'] + 'UL'
        if k == 'CXXBoolLiteralExpr': return '1' if n['value'] else '0'
        if k == 'DeclRefExpr':
            rd = n['referencedDecl']
            if rd.get('kind') == 'VarDecl' and rd.get('name') in locals_: return 'l_' + rd['name']
            if rd.get('kind') == 'NonTypeTemplateParmDecl':
                if rd.get('name') in TPARAMS: return TPARAMS[rd['name']]
                raise Break('unknown template parameter %s' % rd.get('name'))
            return self.atom(n, fname)
        if k in ('DependentScopeDeclRefExpr', 'CXXUnresolvedConstructExpr', 'CXXDependentScopeMemberExpr', 'UnresolvedLookupExpr', 'UnresolvedMemberExpr', 'MemberExpr'):
            return self.atom(n, fname)
        raise Break('guard expression node %s' % k)

    def function(self, alias, rec_name, fn_name):
        tmpl, pat = self.find_pattern(rec_name, fn_name)
        body = self.idx.body(pat)
        lines = []; asserts = []; locals_ = set(); fname = None
        def visit(st):
            nonlocal fname
            k = st.get('kind')
            if k == 'DeclStmt':
                for d in st.get('inner', []): visit(d)
            elif k == 'StaticAssertDecl':
                if fname is None: fname = self.file_of(st)
                cond = st['inner'][0]; msg = [c.get('value') for c in st['inner'] if c.get('kind') == 'StringLiteral']
                msg = json.loads(msg[0]) if msg else ''
                asserts.append((msg, self.expr(cond, fname, locals_)))
            elif k == 'VarDecl' and st.get('constexpr') and norm_bool(st):
                init = [c for c in st.get('inner', []) if isinstance(c, dict) and c.get('kind') and not c['kind'].endswith('Attr')]
                if not init: return
                pending.append((st, init[-1]))
        # two passes: the file is known only after the first static_assert has been seen
        pending = []
        sas = []
        order = []
        for st in body.get('inner', []):
            order.append(st)
        # identify file first
        def find_sa(n):
            if not isinstance(n, dict): return None
            if n.get('kind') == 'StaticAssertDecl': return n
            for c in n.get('inner', []):
                x = find_sa(c)
                if x is not None: return x
            return None
        first = find_sa(body)
        if first is None: raise Break('%s::%s has no static_assert' % (rec_name, fn_name))
        fname = self.file_of(first)
        out = []
        for st in order:
            items = st.get('inner', []) if st.get('kind') == 'DeclStmt' else [st]
            for d in items:
                if d.get('kind') == 'VarDecl' and d.get('constexpr') and norm_bool(d):
                    init = [c for c in d.get('inner', []) if isinstance(c, dict) and c.get('kind') and not c['kind'].endswith('Attr')]
                    if not init: continue
                    try:
                        out.append('  _Bool l_%s = %s;' % (d['name'], self.expr(init[-1], fname, locals_)))
                        locals_.add(d['name'])
                    except Break as b:
                        if d['name'] in ('valid',): continue       # `valid` only selects an overload, it guards nothing
                        raise
                elif d.get('kind') == 'StaticAssertDecl':
                    cond = d['inner'][0]; msg = [c.get('value') for c in d['inner'] if c.get('kind') == 'StringLiteral']
                    msg = json.loads(msg[0]) if msg else ''
                    asserts.append((msg, self.expr(cond, fname, locals_)))
                    out.append('  g->ok[%d] = %s; /* %s */' % (len(asserts) - 1, asserts[-1][1], msg[:60].replace('*/', '')))
        return out, asserts

def norm_bool(d):
    t = d.get('type', {}).get('qualType', '')
    return t.replace('const', '').strip() == 'bool'

# type-state transitions: what each clause records for the guards of later clauses (the injector class templates and
# the initial matcher_info).  (template, specialisation key or None, member) -> documented value as a C expression
INJECTORS = {
    ('matcher_info', None, 'upper_call_limit'): '1', ('matcher_info', None, 'throws'): '0', ('matcher_info', None, 'call_limit_set'): '0',
    ('matcher_info', None, 'sequence_set'): '0', ('matcher_info', None, 'side_effects'): '0',
    ('throw_injector', None, 'throws'): '1', ('sideeffect_injector', None, 'side_effects'): '1', ('sequence_injector', None, 'sequence_set'): '1',
    ('call_limit_injector', None, 'call_limit_set'): '1', ('call_limit_injector', None, 'upper_call_limit'): 'S.H',
    ('call_limit_injector', '0', 'call_limit_set'): '1', ('call_limit_injector', '0', 'upper_call_limit'): '0',
}

def injector_facts(idx):
    """[(description, extracted C expr or None, expected C expr)]"""
    found = {}
    def val(e):
        k = e.get('kind')
        if k in ('ImplicitCastExpr', 'ConstantExpr', 'ParenExpr'): return val(e['inner'][-1])
        if k == 'CXXBoolLiteralExpr': return '1' if e['value'] else '0'
        if k == 'IntegerLiteral': return e['value']
        if k == 'DeclRefExpr' and e['referencedDecl'].get('kind') == 'NonTypeTemplateParmDecl' and e['referencedDecl'].get('name') == 'H': return 'S.H'
        raise Break('injector member initialiser of kind %s' % k)
    for i, n in idx.by_id.items():
        if n.get('kind') in ('ClassTemplateDecl', 'ClassTemplatePartialSpecializationDecl') and n.get('name') in set(k[0] for k in INJECTORS):
            if n['kind'] == 'ClassTemplateDecl':
                recs = [(None, c) for c in n.get('inner', []) if c.get('kind') == 'CXXRecordDecl']
            else:
                args = idx.targs(n)
                recs = [(args[-1] if args else '?', n)]
            for key, r in recs:
                for v in r.get('inner', []):
                    if v.get('kind') == 'VarDecl' and v.get('name'):
                        init = [c for c in v.get('inner', []) if isinstance(c, dict) and c.get('kind') and not c['kind'].endswith('Attr')]
                        if init: found[(n['name'], key, v['name'])] = val(init[-1])
    out = []
    for k, exp in INJECTORS.items():
        desc = '%s%s::%s records %s' % (k[0], '<Parent,%s>' % k[1] if k[1] else '', k[2], exp)
        out.append((desc, found.get(k), exp))
    for k in found:
        if k not in INJECTORS: raise Break('type-state member without oracle entry: %s' % (k,))
    return out

def generate(idx, repo, oracle):
    """returns C source text; raises Break"""
    ex = Extract(idx, repo)
    src = ['/* generated by tools/guards.py from the static_assert guards of /repo - do not edit */',
           'struct state { %s; };' % '; '.join(STATE), 'struct guards { _Bool ok[16]; };', '_Bool nondet_bool(void); unsigned long nondet_ulong(void);']
    harness = []
    for alias, rec, fn in TARGETS:
        body, asserts = ex.function(alias, rec, fn)
        src.append('static void extracted_%s(struct state S, struct guards *g)\n{\n%s\n}' % (alias, '\n'.join(body)))
        want = oracle.get(alias, {})
        got = [m for m, c in asserts]
        for m in want:
            if m not in got:
                harness.append(('%s: the guard "%s" is MISSING from %s::%s' % (alias, m, rec, fn), alias, None, '0'))
        for k, (m, c) in enumerate(asserts):
            if m not in want: raise Break('static_assert without oracle entry in %s::%s: %r' % (rec, fn, m))
            harness.append(('%s: "%s" rejects exactly the documented misuse' % (alias, m), alias, k, want[m]))
    src.append('int main(void)\n{\n  struct state S;')
    for d in STATE:
        ty, nm = d.rsplit(' ', 1)
        src.append('  S.%s = %s;' % (nm, 'nondet_bool()' if ty == '_Bool' else 'nondet_ulong()'))
    done = set()
    for desc, alias, k, orc in harness:
        if alias not in done:
            src.append('  struct guards g_%s; extracted_%s(S, &g_%s);' % (alias, alias, alias)); done.add(alias)
        if k is None:
            src.append('  __CPROVER_assert(0, "[C19] GUARD %s");' % desc.replace('"', "'"))
        else:
            src.append('  __CPROVER_assert(g_%s.ok[%d] == (%s), "[C19] GUARD %s");' % (alias, k, orc, desc.replace('"', "'")))
    for desc, got, exp in injector_facts(idx):
        if got is None: src.append('  __CPROVER_assert(0, "[C19] TYPESTATE %s: member MISSING");' % desc)
        else: src.append('  __CPROVER_assert((%s) == (%s), "[C19] TYPESTATE %s");' % (got, exp, desc))
    src.append('  __CPROVER_assert(0, "REACH! guards.end");\n  return 0;\n}')
    return '\n'.join(src) + '\n', len(harness)
