#!/usr/bin/env python3
"""vp.py - runner library: AST cache, lowering, contract splice, CBMC pipeline, evidence."""
import os, sys, json, re, hashlib, subprocess, time, shutil, tempfile, fcntl, glob
from concurrent.futures import ThreadPoolExecutor

VERIF = os.path.dirname(os.path.dirname(os.path.abspath(__file__)))
REPO = os.environ.get('VP_REPO', '/repo')
TOOLS = os.path.join(VERIF, 'tools')
SPECS = os.path.join(VERIF, 'specs')
HARNESS = os.path.join(VERIF, 'harness')
CACHE = os.environ.get('VP_CACHE', os.path.join(VERIF, '.cache'))
JOBS = int(os.environ.get('VP_JOBS', '16'))

class Undecided(Exception):
    pass

def sha(*parts):
    h = hashlib.sha256()
    for p in parts:
        h.update(p if isinstance(p, bytes) else p.encode())
    return h.hexdigest()[:20]

def read(p):
    with open(p, 'rb') as f: return f.read()

def include_key():
    files = sorted(glob.glob(os.path.join(REPO, 'include', '**', '*'), recursive=True))
    parts = []
    for f in files:
        if os.path.isfile(f): parts += [f.encode(), read(f)]
    parts.append(read(os.path.join(TOOLS, 'driver_tu.cpp')))
    return sha(*parts)

def tools_key():
    return sha(*[read(os.path.join(TOOLS, f)) for f in ('cxx2c.py', 'cxx2c_fn.py', 'cxx2c_body.py', 'lower.py')])

def ensure_ast():
    """clang JSON AST of the driver TU against /repo's CURRENT working tree (cached by content hash)"""
    os.makedirs(CACHE, exist_ok=True)
    key = include_key()
    path = os.path.join(CACHE, 'ast-%s.json' % key)
    if os.path.exists(path): return path, key
    lock = open(os.path.join(CACHE, 'ast.lock'), 'w')
    fcntl.flock(lock, fcntl.LOCK_EX)
    try:
        if os.path.exists(path): return path, key
        for old in glob.glob(os.path.join(CACHE, 'ast-*')) + glob.glob(os.path.join(CACHE, 'unit-*')) + glob.glob(os.path.join(CACHE, 'res-*')):
            try: os.remove(old)
            except OSError: pass
        tmp = path + '.tmp%d' % os.getpid()
        cmd = ['clang++', '-std=c++14', '-I' + os.path.join(REPO, 'include'), '-fsyntax-only', '-Xclang', '-ast-dump=json',
               '-Xclang', '-ast-dump-filter=trompeloeil::', os.path.join(TOOLS, 'driver_tu.cpp')]
        with open(tmp, 'w') as out:
            r = subprocess.run(cmd, stdout=out, stderr=subprocess.PIPE, text=True)
        if r.returncode != 0:
            os.remove(tmp)
            raise Undecided('extraction break: the driver TU does not compile against /repo/include:\n' + r.stderr[-3000:])
        os.replace(tmp, path)
        return path, key
    finally:
        fcntl.flock(lock, fcntl.LOCK_UN); lock.close()

def lower_unit(uname, cfg, astinfo):
    """returns (h_path, c_path, stats)"""
    ast, akey = astinfo
    key = sha(akey, tools_key(), json.dumps(cfg, sort_keys=True))
    base = os.path.join(CACHE, 'unit-%s-%s' % (uname, key))
    h, c, st = base + '.h', base + '.c', base + '.stats.json'
    if not (os.path.exists(h) and os.path.exists(c) and os.path.exists(st)):
        lock = open(os.path.join(CACHE, 'unit-%s.lock' % uname), 'w')
        fcntl.flock(lock, fcntl.LOCK_EX)
        try:
            if not (os.path.exists(h) and os.path.exists(c) and os.path.exists(st)):
                cf = base + '.cfg.json'
                json.dump(cfg, open(cf, 'w'))
                t = str(os.getpid())
                r = subprocess.run([sys.executable, os.path.join(TOOLS, 'lower.py'), ast, cf, h + t, c + t, st + t], capture_output=True, text=True)
                if r.returncode != 0:
                    raise Undecided('extraction break in unit %s: %s' % (uname, r.stderr.strip()[-2000:]))
                os.replace(c + t, c); os.replace(st + t, st); os.replace(h + t, h)
        finally:
            fcntl.flock(lock, fcntl.LOCK_UN); lock.close()
    return h, c, json.load(open(st))

def parse_spec(path):
    """spec file: blocks '@contract <ALIAS>' followed by clause lines until the next '@' line"""
    out = {}; cur = None
    for line in open(path):
        if line.startswith('@contract'):
            cur = line.split()[1]; out[cur] = []
        elif line.startswith('@end'):
            cur = None
        elif cur is not None and line.strip() and not line.lstrip().startswith('//'):
            out[cur].append(line.rstrip())
    return out

def splice(h_text, c_text, contracts):
    """insert contract clauses between the lowered signature and the body of the functions named by alias.
    Every contract must be spliced exactly once (must-fire)."""
    aliases = dict(re.findall(r'^#define (\w+) (\w+)$', h_text, re.M))
    for alias, clauses in contracts.items():
        cname = aliases.get(alias)
        if cname is None: raise Undecided('spec names unknown alias %s' % alias)
        pat = re.compile(r'^([^\n;{}]*\b%s\([^\n]*\))\n\{' % re.escape(cname), re.M)
        ms = pat.findall(c_text)
        if len(ms) != 1: raise Undecided('contract for %s (%s): %d definitions found' % (alias, cname, len(ms)))
        c_text = pat.sub(lambda m: m.group(1) + '\n' + '\n'.join(clauses) + '\n{', c_text, count=1)
    return c_text

def run(cmd, timeout, cwd=None, mem_gb=12):
    pre = 'ulimit -v %d; ' % (mem_gb * 1024 * 1024)
    t0 = time.time()
    try:
        r = subprocess.run(['bash', '-c', pre + 'exec "$@"', 'x'] + cmd, capture_output=True, text=True, timeout=timeout, cwd=cwd)
        return r.returncode, r.stdout, r.stderr, time.time() - t0
    except subprocess.TimeoutExpired as e:
        return -9, (e.stdout or b'').decode() if isinstance(e.stdout, bytes) else (e.stdout or ''), 'TIMEOUT', time.time() - t0

def _content_key():
    parts = []
    for d in (SPECS, HARNESS):
        for f in sorted(os.listdir(d)):
            fp = os.path.join(d, f)
            if os.path.isfile(fp) and not f.endswith('.pyc'): parts += [f.encode(), read(fp)]
    parts.append(read(os.path.join(TOOLS, 'vp.py')))
    return sha(*parts)

_CK = None
def run_obligation(ob, units, astinfo, workdir, tier):
    """cached wrapper: the verdict of an obligation is a function of (/repo/include + driver TU, lowering tools,
    specs, harnesses, models, runner, defines, tier); a later property check in the same tree state reuses it"""
    global _CK
    if _CK is None: _CK = _content_key()
    key = sha(astinfo[1], tools_key(), _CK, json.dumps({k: v for k, v in ob.items() if k != 'run'}, sort_keys=True, default=str), tier)
    cp = os.path.join(CACHE, 'res-%s.json' % key)
    if os.environ.get('VP_NOCACHE') != '1' and os.path.exists(cp):
        try:
            r = json.load(open(cp)); r['cached'] = True
            if r['status'] == 'fail' and not os.path.exists(r.get('gb', '')): pass   # need a fresh run for the trace
            else: return r
        except Exception: pass
    r = _run_obligation(ob, units, astinfo, workdir, tier)
    if r['status'] in ('pass', 'fail'):
        try:
            tmp = cp + '.tmp%d' % os.getpid()
            json.dump(r, open(tmp, 'w'), default=str); os.replace(tmp, cp)
        except Exception: pass
    return r

def _run_obligation(ob, units, astinfo, workdir, tier):
    """returns dict(name, status in {'pass','fail','undecided'}, checks=[...], failed=[...], secs, detail)"""
    name = ob['name']
    res = {'name': name, 'kind': ob['kind'], 'props': ob['props'], 'status': 'undecided', 'failed': [], 'secs': 0.0, 'detail': '',
           'bound': ob.get('bound'), 'n_checks': 0, 'reach': [], 'functions': [], 'enforce': ob.get('enforce'), 'replace': ob.get('replace', [])}
    t0 = time.time()
    try:
        ucfg = units[ob['unit']]
        h, c, stats = lower_unit(ob['unit'], ucfg, astinfo)
        res['functions'] = stats['functions']
        res['stubs'] = stats['stubs']; res['externals'] = stats['externals']; res['std_models'] = stats['std_models']
        wd = os.path.join(workdir, re.sub(r'[^A-Za-z0-9_.-]', '_', name)); os.makedirs(wd, exist_ok=True)
        h_text = open(h).read(); c_text = open(c).read()
        contracts = {}
        for sp in ob.get('specs', []):
            contracts.update(parse_spec(os.path.join(SPECS, sp)))
        only = ob.get('contracts')
        if only is not None: contracts = {k: v for k, v in contracts.items() if k in only}
        c_text = splice(h_text, c_text, contracts)
        aliases0 = dict(re.findall(r'^#define (\w+) (\w+)$', h_text, re.M))
        for al, short in ob.get('outline', {}).items():
            import outline
            try: otext = outline.outline(c_text, aliases0.get(al, al), short)
            except outline.Break as b: raise Undecided('extraction break (loop outlining): %s' % b)
            open(os.path.join(wd, '%s_outlined.c' % short), 'w').write(otext)
        open(os.path.join(wd, 'unit.h'), 'w').write(h_text)
        open(os.path.join(wd, 'unit.c'), 'w').write(c_text)
        aliases = dict(re.findall(r'^#define (\w+) (\w+)$', h_text, re.M))
        defs = dict(ob.get('defines', {}))
        defs.update(ob.get('defines_' + tier, {}))
        entry = ob.get('entry', 'main')
        dflags = ['-D%s=%s' % (k, v) for k, v in defs.items()] + ['-DVP_ENTRY=%s' % entry]
        gb = os.path.join(wd, 'a.gb')
        res['cc'] = ['goto-cc', '-I', wd, '-I', SPECS, '-I', HARNESS] + dflags + [os.path.join(HARNESS, ob['harness'])]
        rc, out, err, _ = run(res['cc'] + ['-o', gb], 300)
        if rc != 0:
            raise Undecided('goto-cc failed (extraction break or spec/harness out of date):\n' + (err or out)[-3000:])
        cur = gb
        if ob.get('enforce') or ob.get('replace'):
            gi = ['goto-instrument', '--dfcc', 'main']
            if ob.get('enforce'):
                f = aliases.get(ob['enforce'], ob['enforce'])
                gi += ['--enforce-contract', f]
            for r in ob.get('replace', []):
                gi += ['--replace-call-with-contract', aliases.get(r, r)]
            nxt = os.path.join(wd, 'b.gb')
            rc, out, err, _ = run(gi + [cur, nxt], 600)
            if rc != 0: raise Undecided('goto-instrument failed:\n' + (out + err)[-3000:])
            cur = nxt
        flags = ['--bounds-check', '--pointer-check', '--pointer-primitive-check', '--div-by-zero-check', '--json-ui', '--no-built-in-assertions'] if False else \
                ['--bounds-check', '--pointer-check', '--div-by-zero-check', '--no-malloc-may-fail', '--object-bits', str(ob.get('object_bits', 10)), '--json-ui']
        flags += ob.get('cbmc_flags', [])
        unwind = ob.get('unwind_' + tier, ob.get('unwind'))
        if unwind:
            flags += ['--unwind', str(unwind), '--unwinding-assertions']
            lb = stats.get('loop_bounds', [])
            if lb: flags += ['--unwindset', ','.join('%s.%d:%d' % (f, o, b) for f, o, b in lb)]
        timeout = ob.get('timeout_' + tier, ob.get('timeout', 900))
        rc, out, err, secs = run(['cbmc', cur] + flags, timeout)
        open(os.path.join(wd, 'cbmc.json'), 'w').write(out)
        res['cbmc_cmd'] = 'cbmc %s' % ' '.join(flags)
        if rc == -9: raise Undecided('cbmc timeout after %ds' % timeout)
        try:
            msgs = json.loads(out)
        except Exception:
            raise Undecided('cbmc output not parseable (rc=%d): %s' % (rc, (out + err)[-1500:]))
        checks = None; log = []
        for m in msgs:
            if 'result' in m: checks = m['result']
            if m.get('messageType') in ('ERROR', 'WARNING'): log.append(m.get('messageText', ''))
            if 'messageText' in m and m.get('messageType') == 'STATUS-MESSAGE' and 'solver' in m['messageText'].lower(): res['backend'] = m['messageText']
        bad_log = [l for l in log if re.search(r'ignoring|unsupported|no body for function|no body for callee', l)]
        allowed = ob.get('allow_nobody', [])
        bad_log = [l for l in bad_log if not any(a in l for a in allowed)]
        if bad_log: raise Undecided('cbmc log has forbidden warnings: %s' % bad_log[:5])
        if checks is None: raise Undecided('cbmc produced no result (rc=%d): %s' % (rc, '; '.join(log)[-1500:]))
        res['n_checks'] = len(checks)
        for ch in checks:
            d = ch.get('description', '')
            if ch.get('status') == 'FAILURE' and ('unwinding assertion' in d or 'recursion unwinding' in d):
                raise Undecided('unwinding bound too small for this tree: %s (%s)' % (d, ch.get('property')))
        reach_seen = 0; unknown = []; vacuous = []
        entry_fn = ob.get('entry', 'main')
        for ch in checks:
            d = ch.get('description', ''); st = ch.get('status')
            fn = ch.get('sourceLocation', {}).get('function')
            if d.startswith('REACH'):
                if fn != entry_fn: continue            # marker of another entry point of the same harness file
                reach_seen += 1
                res['reach'].append({'description': d, 'reached': st == 'FAILURE'})
                # 'REACH!' markers are mandatory in every run; plain 'REACH' markers must be reached in at
                # least one heap-shape variant of the obligation (checked by the caller over the group)
                if st != 'FAILURE' and (d.startswith('REACH!') or not ob.get('group')):
                    vacuous.append(d)
                continue
            if st == 'FAILURE' and ('unwinding assertion' in d or 'recursion unwinding' in d):
                raise Undecided('unwinding bound too small for this tree: %s (%s)' % (d, ch.get('property')))
            if st == 'FAILURE':
                res['failed'].append({'property': ch.get('property'), 'description': d, 'loc': ch.get('sourceLocation', {})})
            elif st == 'UNKNOWN':
                unknown.append(ch.get('property'))
            elif st not in ('SUCCESS',):
                raise Undecided('check %s has status %s' % (ch.get('property'), st))
        # an unreachable marker next to a refuted check is a consequence of the refutation (e.g. std::abort() reached and
        # the path cut there); without any refutation it is a vacuity problem
        if vacuous and not res['failed']: raise Undecided('vacuity: reachability marker not reachable: %s' % vacuous[0])
        # CBMC reports checks downstream of a refuted one as UNKNOWN: harmless next to a refutation, undecided otherwise
        if unknown and not res['failed']: raise Undecided('checks with status UNKNOWN: %s' % unknown[:3])
        if reach_seen < ob.get('min_reach', 1): raise Undecided('vacuity: expected >= %d REACH markers, saw %d' % (ob.get('min_reach', 1), reach_seen))
        if len(checks) - reach_seen < ob.get('min_checks', 1): raise Undecided('vacuity: no obligations generated')
        res['status'] = 'fail' if res['failed'] else 'pass'
        res['workdir'] = wd
        res['gb'] = cur
        res['flags'] = flags
    except Undecided as u:
        res['status'] = 'undecided'; res['detail'] = str(u)
    res['secs'] = round(time.time() - t0, 2)
    return res

def trace_for(res, timeout=900, extra_defines=None):
    """re-run a failed obligation with --trace and return the counterexample assignments of harness inputs.
    extra_defines: recompile the harness with additional -D (e.g. VP_REPLAYABLE: restrict the start state to states
    that a canonical API history constructs, so that the counterexample can be replayed on the real C++)"""
    gb = res['gb']
    if extra_defines:
        if res.get('enforce') or res.get('replace') or not res.get('cc'): return {}, ''
        gb = os.path.join(res['workdir'], 'replayable.gb')
        rc, out, err, _ = run(res['cc'] + ['-D%s=%s' % kv for kv in extra_defines.items()] + ['-o', gb], 300)
        if rc != 0: return {}, 'recompilation with %s failed' % extra_defines
    rc, out, err, secs = run(['cbmc', gb] + res['flags'] + ['--trace'], timeout)
    vals = {}
    try:
        msgs = json.loads(out)
    except Exception:
        return vals, out[-4000:]
    text = []
    for m in msgs:
        for ch in m.get('result', []):
            if ch.get('status') == 'FAILURE' and not ch.get('description', '').startswith('REACH') and 'trace' in ch:
                for st in ch['trace']:
                    if st.get('stepType') == 'assignment' and st.get('assignmentType') == 'variable':
                        lhs = st.get('lhs', '')
                        if re.match(r'^(in_|g_)', lhs) and 'value' in st:
                            v = st['value']
                            vals[lhs] = v.get('data', v.get('name'))
                text.append('%s: %s' % (ch.get('property'), ch.get('description')))
                break
    return vals, '\n'.join(text)
