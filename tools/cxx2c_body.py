#!/usr/bin/env python3
"""cxx2c part 3: one function body -> C statements (A-normal form)."""
import re
import hashlib
from cxx2c import *
from cxx2c_fn import Scope, SIMPLE_RE

def tsan(t):
    return sanitize(t.replace('struct ', '').replace('*', ' p'))

WRAPPERS = ('ExprWithCleanups', 'CXXBindTemporaryExpr', 'ParenExpr', 'ConstantExpr')
CALLS = ('CXXMemberCallExpr', 'CXXOperatorCallExpr', 'CallExpr')
CASTS = ('ImplicitCastExpr', 'CXXStaticCastExpr', 'CXXConstCastExpr', 'CStyleCastExpr', 'CXXFunctionalCastExpr', 'CXXReinterpretCastExpr')

class FnLower:
    def __init__(self, L):
        self.L = L; self.idx = L.idx
        self.lines = []; self.ind = 1
        self.tmpn = 0; self.lbln = 0
        self.refs = set()
        self.scopes = []
        self.noexcept = False
        self.rett = 'void'; self.ret_ref = False
        self.fn = None
        self.renames = {}
        self.dead_vars = set()
        self.loops_closed = 0
        self.caps = {}

    # ------------------------------------------------------------ utilities
    def emit(self, s):
        for l in s.split('\n'):
            self.lines.append('  ' * self.ind + l)
    def tmp(self, p='_t'):
        self.tmpn += 1; return '%s%d' % (p, self.tmpn)
    def label(self, p='L'):
        self.lbln += 1; return '%s%d' % (p, self.lbln)
    def capture(self, f):
        saved = self.lines; self.lines = []
        try: r = f()
        finally:
            buf = self.lines; self.lines = saved
        return buf, r
    def note(self, n):
        k = n.get('kind'); st = self.L.stats['node_kinds']; st[k] = st.get(k, 0) + 1
    def where(self):
        return '%s (%s)' % (self.fn.get('name'), self.fn.get('mangledName', ''))
    def unsupported(self, msg):
        raise Unsupported('%s in %s' % (msg, self.where()))

    def strip(self, e):
        while True:
            k = e.get('kind')
            if k in WRAPPERS or k == 'MaterializeTemporaryExpr': e = e['inner'][0]
            elif k == 'SubstNonTypeTemplateParmExpr': e = e['inner'][-1]
            elif k in CASTS and e.get('castKind') in ('NoOp', 'ConstructorConversion', 'UserDefinedConversion'): e = e['inner'][-1]
            else: return e

    def capture_source(self, ini):
        """the DeclRefExpr a lambda capture initialiser stands for (a by-copy capture of a class-type variable is a copy construction)"""
        i0 = self.strip_casts(ini)
        while i0.get('kind') in ('CXXConstructExpr', 'MaterializeTemporaryExpr', 'ExprWithCleanups') and len(i0.get('inner', [])) == 1:
            i0 = self.strip_casts(i0['inner'][0])
        return i0

    def strip_casts(self, e):
        while e.get('kind') in WRAPPERS + CASTS + ('MaterializeTemporaryExpr',) and e.get('inner'): e = e['inner'][-1]
        return e

    def is_glvalue(self, e):
        return e.get('valueCategory') in ('lvalue', 'xvalue')

    # ------------------------------------------------------------ exceptions
    def unwind_to(self, stop_index):
        """emit destructor calls for scopes[stop_index+1:] (innermost first)"""
        stmts = []
        for sc in reversed(self.scopes[stop_index+1:]):
            stmts += list(reversed(sc.dtors))
        return stmts

    def propagate(self):
        """emit code that transfers control to the innermost handler (vp_exc is set)"""
        target = None
        for i in range(len(self.scopes) - 1, -1, -1):
            if self.scopes[i].kind == 'try': target = i; break
        stop = target if target is not None else -1
        d = self.unwind_to(stop)
        if d:
            sv = self.tmp('_sv')
            # units that set `unwinding_ghost` keep the ghost flag behind std::uncaught_exception(); the others do not write it (their
            # function contracts have explicit frames), there std::uncaught_exception() is constantly false
            uw = bool(self.L.cfg.get('unwinding_ghost'))
            self.emit('{ int %s = vp_exc; vp_exc = 0;%s' % (sv, (' int %s_u = vp_unwinding; vp_unwinding = 1;' % sv) if uw else ''))
            for s in d: self.emit('  ' + s)
            self.emit('  %svp_exc = %s; }' % (('vp_unwinding = %s_u; ' % sv) if uw else '', sv))
        if target is not None:
            self.emit('goto %s;' % self.scopes[target].handler)
        else:
            if self.noexcept: self.emit('vp_terminate();')
            self.emit('return%s;' % ('' if self.rett == 'void' else ' _vp_retdummy'))

    def check(self):
        buf, _ = self.capture(self.propagate)
        self.emit('if (vp_exc) {')
        for l in buf: self.lines.append('  ' + l)
        self.emit('}')

    # ------------------------------------------------------------- functions
    def lower_fn(self, fn):
        L = self.L
        self.fn = fn
        L.cur_fn = fn
        kind = fn['kind']
        L.stats['functions'].append({'name': fn.get('name'), 'mangled': fn.get('mangledName'), 'line': fn.get('loc', {}).get('line') or fn.get('loc', {}).get('expansionLoc', {}).get('line')})
        sig = L.signature(fn)
        self.rett = sig.split(' f_')[0]
        self.noexcept = is_noexcept(fn['type']['qualType']) or kind == 'CXXDestructorDecl'
        self.ret_ref = kind not in ('CXXConstructorDecl', 'CXXDestructorDecl') and L.is_ref(L.ret_type_str(fn))
        for p in fn.get('inner', []):
            if p.get('kind') == 'ParmVarDecl' and L.is_ref(p['type']): self.refs.add(p['id'])
        self.scopes = [Scope('fn')]
        if self.rett != 'void': self.emit('%s _vp_retdummy;' % self.rett)
        rec = L.rec_of_method(fn)
        if rec is not None and rec['id'] in L.lambda_caps: self.caps = L.lambda_caps[rec['id']]
        elif rec is not None and rec.get('definitionData', {}).get('isLambda'):
            # the call operator is lowered before the function that contains the lambda expression: the capture map is a
            # static fact of the LambdaExpr (field k <-> k-th capture initialiser)
            le = self.idx.parent.get(rec['id'])
            if le is not None and le.get('kind') == 'LambdaExpr':
                inits = [c for c in le['inner'][1:] if c.get('kind') != 'CompoundStmt']
                flds = self.idx.fields(rec)
                if len(flds) != len(inits): self.unsupported('lambda captures (%d fields, %d initialisers)' % (len(flds), len(inits)))
                caps = {}
                for fk, (f, ini) in enumerate(zip(flds, inits)):
                    i0 = self.capture_source(ini)
                    if i0.get('kind') != 'DeclRefExpr': self.unsupported('lambda init-capture')
                    caps[i0['referencedDecl']['id']] = (f.get('name') or ('_c%d' % fk), L.is_ref(f['type']))
                self.caps = caps
        if kind == 'CXXConstructorDecl':
            tags_done = False
            for c in fn.get('inner', []):
                if c.get('kind') != 'CXXCtorInitializer': continue
                if 'baseInit' in c:
                    br = self.idx.find_rec(qt(c['baseInit']))
                    k = None
                    for j, (b, r) in enumerate(self.idx.bases(rec)):
                        if (r is not None and br is not None and r['id'] == br['id']) or norm(qt(b['type'])) == norm(qt(c['baseInit'])): k = j
                    if k is None: self.unsupported('base initialiser %s' % qt(c['baseInit']))
                    self.construct_into('&self->_b%d' % k, c['inner'][0], L.tinfo(c['baseInit']))
                else:
                    if not tags_done: self.set_tags(rec); tags_done = True
                    fld = c.get('anyInit')
                    if fld is None:
                        # delegating constructor: X(args) : X(other args) {}
                        self.construct_into('self', c['inner'][0], ('rec', rec)); continue
                    fd = self.idx.by_id.get(fld['id'], fld)
                    self.init_field(fd, c['inner'][0])
            if not tags_done: self.set_tags(rec)
        if kind == 'CXXDestructorDecl':
            self.set_tags(rec)
        self.stmt(self.idx.body(fn))
        body = '\n'.join(self.lines)
        return '/* %s */\n%s\n{\n%s\n}\n' % (self.where(), sig, body), sig

    def set_tags(self, rec):
        if rec is None: return
        c = self.L.need_rec(rec)
        for p in self.idx.poly_root_paths(rec):
            self.emit('self->%s = %s;' % ('.'.join(p + ['vp_tag']), self.L.tag_of(c)))

    def init_field(self, fd, e):
        L = self.L
        t = L.tinfo(fd['type'])
        while t[0] == 'alias': t = L.tparse(t[1])
        name = fd['name']
        if e.get('kind') == 'CXXDefaultInitExpr':
            init = None
            for c in fd.get('inner', []):
                if isinstance(c, dict) and c.get('kind') and not c['kind'].endswith('Attr'): init = c
            if init is None: self.unsupported('default member initialiser of %s not in dump' % name)
            e = init
        if t[0] == 'ref':
            self.emit('self->%s = %s;' % (name, self.addr(e)))
        elif t[0] in ('rec', 'tuple', 'stdarray', 'pair', 'refw', 'model', 'uptr') and not (t[0] == 'model' and not t[1].startswith('struct')):
            self.construct_into('&self->%s' % name, e, t)
        elif t[0] == 'array':
            self.unsupported('array member initialiser')
        else:
            self.emit('self->%s = %s;' % (name, self.rv(e)))

    def lower_complete_dtor(self, rec):
        L = self.L
        cname = L.need_rec(rec)
        self.fn = {'name': '~' + cname + ' (complete)', 'mangledName': 'fd_' + cname}
        self.noexcept = True
        self.scopes = [Scope('fn')]
        sig = 'void fd_%s(struct %s * self)' % (cname, cname)
        d = self.idx.dtor_of(rec)
        if d is not None and self.idx.defn.get(d['id']) is not None and not d.get('isImplicit'):
            dd = self.idx.defn[d['id']]
            has_stmts = bool(self.idx.body(dd).get('inner'))
            if has_stmts:
                self.emit('%s(self);' % L.need_fn(d['id']))
            else:
                self.set_tags(rec)
        else:
            self.set_tags(rec)
        for f in reversed(self.idx.fields(rec)):
            t = L.tinfo(f['type'])
            if t[0] == 'ref': continue
            s = L.destroy_stmt(t, 'self->%s' % f['name'])
            if s: self.emit(s)
        bs = self.idx.bases(rec)
        for k in reversed(range(len(bs))):
            b, br = bs[k]
            if br is None:
                t = L.tinfo(b['type'])
            else:
                t = ('rec', br)
            s = L.destroy_stmt(t, 'self->_b%d' % k)
            if s: self.emit(s)
        return '/* complete destructor of %s: user body, then members in reverse order, then bases */\n%s\n{\n%s\n}\n' % (cname, sig, '\n'.join(self.lines)), sig

    # ------------------------------------------------------------ statements
    def block(self, n, kind='block'):
        sc = Scope(kind); self.scopes.append(sc)
        self.emit('{'); self.ind += 1
        if n is not None: self.stmt_inner(n)
        for s in reversed(sc.dtors): self.emit(s)
        self.ind -= 1; self.emit('}')
        self.scopes.pop()

    def stmt_inner(self, n):
        if n.get('kind') == 'CompoundStmt':
            for c in n.get('inner', []): self.stmt(c)
        else:
            self.stmt(n)

    def cond(self, c):
        """lower a condition; returns (prelude_lines, cexpr)"""
        return self.capture(lambda: self.rv(c))

    def stmt(self, n):
        k = n.get('kind')
        self.note(n)
        if k == 'CompoundStmt': self.block(n); return
        if k == 'DeclStmt':
            for c in n['inner']: self.vardecl(c)
            return
        if k == 'NullStmt': self.emit(';'); return
        if k == 'IfStmt':
            inner = list(n['inner'])
            if n.get('hasInit') or n.get('hasVar'): self.unsupported('if with init/var')
            c = self.rv(inner[0])
            self.emit('if (%s)' % c)
            self.block(inner[1])
            if len(inner) > 2:
                self.emit('else')
                self.block(inner[2])
            return
        if k == 'WhileStmt':
            c, b = n['inner'][-2], n['inner'][-1]
            pre, ce = self.cond(c)
            sc = Scope('loop'); self.scopes.append(sc)
            self.emit('while (1) {'); self.ind += 1
            for l in pre: self.lines.append('  ' + l)
            self.emit('if (!(%s)) break;' % ce)
            self.block(b)
            self.ind -= 1; self.emit('}')
            self.scopes.pop()
            self.loops_closed += 1
            return
        if k == 'DoStmt':
            b, c = n['inner'][0], n['inner'][1]
            sc = Scope('loop'); sc.cont_label = self.label('Lcont'); self.scopes.append(sc)
            self.emit('while (1) {'); self.ind += 1
            self.block(b)
            self.emit('%s: ;' % sc.cont_label)
            ce = self.rv(c)
            self.emit('if (!(%s)) break;' % ce)
            self.ind -= 1; self.emit('}')
            self.scopes.pop()
            self.loops_closed += 1
            return
        if k == 'ForStmt':
            init, condvar, c, inc, body = n['inner']
            if condvar: self.unsupported('for condition variable')
            outer = Scope('block'); self.scopes.append(outer)
            self.emit('{'); self.ind += 1
            if init: self.stmt(init)
            sc = Scope('loop'); sc.cont_label = self.label('Lcont'); self.scopes.append(sc)
            self.emit('while (1) {'); self.ind += 1
            if c:
                ce = self.rv(c)
                self.emit('if (!(%s)) break;' % ce)
            self.block(body)
            self.emit('%s: ;' % sc.cont_label)
            if inc: self.expr_stmt(inc)
            self.ind -= 1; self.emit('}')
            self.scopes.pop()
            self.loops_closed += 1
            for s in reversed(outer.dtors): self.emit(s)
            self.ind -= 1; self.emit('}')
            self.scopes.pop()
            return
        if k == 'CXXForRangeStmt':
            init, rng, beg, end, c, inc, var, body = n['inner']
            if init: self.unsupported('range-for init')
            outer = Scope('block'); self.scopes.append(outer)
            self.emit('{'); self.ind += 1
            self.stmt(rng); self.stmt(beg); self.stmt(end)
            sc = Scope('loop'); sc.cont_label = self.label('Lcont'); self.scopes.append(sc)
            arr_n = None
            try:
                rt0 = self.L.deref_t(rng['inner'][0]['type'])
                if rt0[0] == 'stdarray': arr_n = rt0[2]
            except Unsupported: pass
            cnt = None
            if arr_n is not None:
                cnt = self.tmp('_n'); self.emit('unsigned long %s = 0;' % cnt)
            self.emit('while (1) {'); self.ind += 1
            ce = self.rv(c)
            self.emit('if (!(%s)) break;' % ce)
            if cnt is not None:
                # std::array<T,K> model: begin() + K == end().  Ghost iteration counter: asserted, then used to
                # cut the (infeasible) K+1-th iteration so that symbolic execution never reads past the array.
                self.emit('if (%s >= %dUL) { __CPROVER_assert(0, "STDARRAY: range-for over std::array<T,%d> ran past end()"); __CPROVER_assume(0); }' % (cnt, arr_n, arr_n))
                self.emit('++%s;' % cnt)
            inner = Scope('block'); self.scopes.append(inner)
            self.emit('{'); self.ind += 1
            self.stmt(var)
            self.stmt_inner(body)
            for s in reversed(inner.dtors): self.emit(s)
            self.ind -= 1; self.emit('}')
            self.scopes.pop()
            self.emit('%s: ;' % sc.cont_label)
            self.expr_stmt(inc)
            self.ind -= 1; self.emit('}')
            self.scopes.pop()
            try:
                rt = self.L.deref_t(rng['inner'][0]['type'])
                if rt[0] == 'stdarray':
                    self.L.stats.setdefault('loop_bounds', []).append(['f_' + self.fn.get('mangledName', ''), self.loops_closed, rt[2] + 1])
            except Unsupported: pass
            self.loops_closed += 1
            for s in reversed(outer.dtors): self.emit(s)
            self.ind -= 1; self.emit('}')
            self.scopes.pop()
            return
        if k == 'ReturnStmt':
            val = None
            if n.get('inner'):
                e = n['inner'][0]
                if self.rett == 'void':
                    self.expr_stmt(e)
                else:
                    nd = len(self.scopes[-1].dtors)
                    val = self.addr(e) if self.ret_ref else self.rv(e)
                    # a prvalue returned by value is constructed in the caller's return slot: the temporary that
                    # stands for it here is not destroyed in this function
                    if not self.ret_ref and re.match(r'^_t\d+$', val or ''):
                        ds = self.scopes[-1].dtors
                        mine = [i for i in range(nd, len(ds)) if re.search(r'\(&?\(?%s\)?\)' % re.escape(val), ds[i])]
                        if len(mine) == 1: ds.pop(mine[0])
            d = self.unwind_to(-1)
            if d and val is not None and not SIMPLE_RE.match(val):
                t = self.tmp('_ret'); self.emit('%s %s = %s;' % (self.rett, t, val)); val = t
            for s in d: self.emit(s)
            self.emit('return%s;' % ('' if val is None else ' ' + val))
            return
        if k == 'BreakStmt':
            for i in range(len(self.scopes) - 1, -1, -1):
                if self.scopes[i].kind in ('loop', 'switch'): break
            else: self.unsupported('break outside loop')
            for s in self.unwind_to(i): self.emit(s)
            self.emit('break;'); return
        if k == 'ContinueStmt':
            for i in range(len(self.scopes) - 1, -1, -1):
                if self.scopes[i].kind == 'loop': break
            else: self.unsupported('continue outside loop')
            for s in self.unwind_to(i): self.emit(s)
            self.emit('goto %s;' % self.scopes[i].cont_label if self.scopes[i].cont_label else 'continue;'); return
        if k == 'SwitchStmt':
            c = self.rv(n['inner'][0])
            sc = Scope('switch'); self.scopes.append(sc)
            self.emit('switch (%s) {' % c); self.ind += 1
            body = n['inner'][-1]
            for ch in (body.get('inner', []) if body.get('kind') == 'CompoundStmt' else [body]):
                self.switch_child(ch)
            self.ind -= 1; self.emit('}')
            self.scopes.pop()
            return
        if k == 'CXXTryStmt':
            self.try_stmt(n); return
        if k in ('StaticAssertDecl',):
            return
        self.expr_stmt(n)

    def switch_child(self, ch):
        k = ch.get('kind')
        if k == 'CaseStmt':
            v = self.rv(ch['inner'][0])
            self.emit('case %s:' % v)
            self.switch_child(ch['inner'][-1])
        elif k == 'DefaultStmt':
            self.emit('default:')
            self.switch_child(ch['inner'][-1])
        else:
            self.stmt(ch)

    def try_stmt(self, n):
        body = n['inner'][0]; catches = n['inner'][1:]
        lc = self.label('Lcatch'); lend = self.label('Lend')
        sc = Scope('try'); sc.handler = lc
        self.emit('{ /* try */'); self.ind += 1
        self.scopes.append(sc)
        self.block(body)
        self.scopes.pop()
        self.emit('goto %s;' % lend)
        self.emit('%s: ;' % lc)
        ex = self.tmp('_exc'); pc = self.tmp('_pcur')
        hs = Scope('block'); self.scopes.append(hs)
        self.emit('{'); self.ind += 1
        self.emit('int %s = vp_exc; int %s = vp_cur; vp_exc = 0; vp_cur = %s;' % (ex, pc, ex))
        hs.dtors.append('vp_cur = %s;' % pc)
        for c in catches:
            var = c['inner'][0] if len(c['inner']) > 1 else None
            hbody = c['inner'][-1]
            if var and var.get('kind') == 'VarDecl':
                tn = norm(qt(var['type']))
                if tn.rstrip('&') == 'std::exception':
                    self.emit('if (VP_EXC_IS_STD(%s))' % ex)
                    self.emit('{'); self.ind += 1
                    if var.get('name'):
                        self.refs.add(var['id'])
                        self.emit('struct vp_stdexc * %s = vp_current_stdexc();' % var['name'])
                else:
                    self.unsupported('catch of type %s' % tn)
            else:
                self.emit('{'); self.ind += 1
            self.block(hbody)
            self.emit('vp_cur = %s;' % pc)
            self.emit('goto %s;' % lend)
            self.ind -= 1; self.emit('}')
        # no clause matched: rethrow
        self.emit('vp_exc = %s;' % ex)
        self.propagate()
        self.ind -= 1; self.emit('}')
        self.scopes.pop()
        self.emit('%s: ;' % lend)
        self.ind -= 1; self.emit('}')

    def expr_stmt(self, e):
        e0 = self.strip(e)
        k = e0.get('kind')
        if k == 'CXXThrowExpr':
            self.throw(e0); return
        if k in CALLS:
            txt, isptr = self.call(e0, want_value=False)
            if txt and not SIMPLE_RE.match(txt): self.emit('%s;' % txt)
            return
        if k == 'BinaryOperator' and e0.get('opcode') == ',':
            self.expr_stmt(e0['inner'][0]); self.expr_stmt(e0['inner'][1]); return
        if k in ('CXXConstructExpr', 'CXXTemporaryObjectExpr'):
            self.rv(e0); return
        txt = self.rv(e0)
        if txt and not SIMPLE_RE.match(txt): self.emit('(void)%s;' % txt if not txt.startswith('(') else '%s;' % txt)

    def throw(self, e):
        if not e.get('inner'):
            self.emit('vp_exc = vp_cur; /* throw; */')
        else:
            tn = norm(qt(e['inner'][0]['type']))
            try: scalar = self.L.tinfo(e['inner'][0]['type'])[0] in ('builtin', 'ptr')
            except Unsupported: scalar = False
            if scalar: self.expr_stmt(e['inner'][0])   # the operand is evaluated (it may have side effects, e.g. THROW((_1 += 1, 7))); class-type exception objects are not built
            kind = 'VP_EXC_LOGIC_ERROR' if 'logic_error' in tn else ('VP_EXC_VIOLATION' if 'expectation_violation' in tn else 'VP_EXC_OTHER')
            self.emit('vp_exc = %s; /* throw %s */' % (kind, tn))
        self.propagate()

    def vardecl(self, v):
        L = self.L
        if v.get('kind') in ('StaticAssertDecl', 'TypeAliasDecl', 'TypedefDecl', 'UsingDecl', 'CXXRecordDecl'): return
        if v.get('kind') != 'VarDecl': self.unsupported('decl ' + str(v.get('kind')))
        name = v['name']
        init = None
        for c in v.get('inner', []):
            if isinstance(c, dict) and c.get('kind') and not c['kind'].endswith('Attr'): init = c
        t = L.tinfo(v['type'])
        if v.get('constexpr') and init is not None and t[0] == 'builtin' and v.get('storageClass') != 'static':
            # a constexpr local computed from compile-time facts (type traits, static members): if it cannot be lowered it is
            # only usable in constant expressions (static_assert, template arguments); a run-time use is an extraction break
            try:
                buf, x = self.capture(lambda: self.rv(init))
            except Unsupported:
                self.dead_vars.add(v['id'])
                self.emit('/* constexpr %s: compile-time only */' % name)
                return
            self.lines += buf
            self.emit('%s %s = %s;' % (L.ctype_of(t), name, x))
            return
        if v.get('storageClass') == 'static':
            g = 'g_%s_%s' % (sanitize(self.fn.get('name', 'fn')), name)
            self.renames[v['id']] = g
            ct = L.ctype_of(t)
            if g not in L.aux_structs:
                L.aux_structs[g] = ('global',)
                val = ''
                if init is not None and t[0] in ('builtin', 'ptr'):
                    buf, x = self.capture(lambda: self.rv(init))
                    if buf: self.unsupported('static local with non-constant initialiser')
                    val = ' = ' + x
                elif init is not None:
                    val = ''   # model objects: initial state is the model's responsibility
                L.rec_defs.append('%s %s%s; /* static local of %s */' % (ct, g, val, self.fn.get('name')))
            return
        if t[0] == 'ref':
            self.refs.add(v['id'])
            self.emit('%s %s = %s;' % (L.ctype_of(t), name, self.addr(init)))
            return
        if t[0] == 'array':
            self.unsupported('local array')
        ct = L.ctype_of(t)
        structish = ct.startswith('struct ') and not ct.endswith('*')
        if t[0] == 'uptr':
            self.emit('%s %s = 0;' % (ct, name))
            if init is not None: self.construct_into('&' + name, init, t)
        elif structish:
            self.emit('%s %s;' % (ct, name))
            if init is not None: self.construct_into('&' + name, init, t)
        else:
            if init is None: self.emit('%s %s;' % (ct, name))
            else: self.emit('%s %s = %s;' % (ct, name, self.rv(init)))
        d = L.destroy_stmt(t, name)
        if d: self.scopes[-1].dtors.append(d)

    # ------------------------------------------------- object construction
    def find_ctor(self, rec, ctor_type):
        for m in rec.get('inner', []):
            if m.get('kind') == 'CXXConstructorDecl' and m['type']['qualType'] == ctor_type: return m
            if m.get('kind') == 'FunctionTemplateDecl':
                for s in m.get('inner', []):
                    if s.get('kind') == 'CXXConstructorDecl' and s['type']['qualType'] == ctor_type and self.idx.defn.get(s['id']) is not None: return s
        return None

    def is_copy_or_move_ctor(self, ctor_type, tystr):
        ps = params_of(ctor_type)
        if len(ps) != 1: return False
        p = norm(ps[0])
        return p.rstrip('&') == norm(tystr) or self.idx.resolve(p.rstrip('&')) == self.idx.resolve(norm(tystr))

    def construct_into(self, target, e, t):
        """initialise the object *target (C pointer expression) of type info t from expression e"""
        L = self.L
        while t[0] == 'alias': t = L.tparse(t[1])
        e = self.strip(e)
        k = e.get('kind')
        if k == 'CXXDefaultArgExpr': self.unsupported('default argument')
        if k in ('CXXConstructExpr', 'CXXTemporaryObjectExpr'):
            args = e.get('inner', [])
            ct = e['ctorType']['qualType']
            tystr = qt(e['type'])
            if t[0] == 'rec':
                rec = t[1]
                ctor = self.find_ctor(rec, ct)
                if (e.get('elidable') or self.is_copy_or_move_ctor(ct, tystr)) and len(args) == 1:
                    d = self.idx.defn.get(ctor['id']) if ctor else None
                    if e.get('elidable') or d is None or (ctor.get('isImplicit') and self.trivial_copy(rec)):
                        if d is not None and not self.trivial_copy(rec) and not e.get('elidable'):
                            pass
                        else:
                            return self.construct_into(target, args[0], t)
                if ctor is None: self.unsupported('constructor %s of %s not found' % (ct, tystr))
                d = self.idx.defn.get(ctor['id'])
                if d is None:
                    if not args and ctor.get('isImplicit') or (ctor.get('explicitlyDefaulted') and not args):
                        self.emit('/* trivial default construction of %s */' % target); return
                    if self.L.is_opaque(ctor):
                        pass
                    else:
                        self.unsupported('constructor %s of %s has no definition' % (ct, tystr))
                fn = L.need_fn(ctor['id'])
                cargs = self.call_args(ctor, args)
                self.emit('%s(%s);' % (fn, ', '.join([target] + cargs)))
                if self.L.fn_may_throw(ctor): self.check()
                return
            if t[0] == 'uptr':
                if not args: self.emit('*(%s) = 0;' % target); return
                a = self.strip(args[0])
                at = None
                try: at = L.deref_t(a['type'])
                except Unsupported: pass
                if at is not None and at[0] == 'uptr' and self.is_glvalue(args[0]):
                    src = self.lv(args[0])
                    self.emit('*(%s) = %s; %s = 0; /* unique_ptr move */' % (target, self.uptr_conv(src, at, t), src)); return
                if at is not None and at[0] == 'uptr':
                    self.construct_into(target, args[0], t); return
                self.emit('*(%s) = (%s)%s;' % (target, L.ctype_of(t), self.rv(args[0]))); return
            if t[0] == 'tuple':
                els = t[1]
                if self.is_copy_or_move_ctor(ct, tystr) and len(args) == 1:
                    return self.construct_into(target, args[0], t)
                if len(args) != len(els): self.unsupported('tuple constructor arity')
                for i, (a, et) in enumerate(zip(args, els)):
                    ti = L.tparse(et)
                    if ti[0] == 'ref': self.emit('(%s)->_%d = %s;' % (target, i, self.addr(a)))
                    elif ti[0] == 'refw': self.emit('(%s)->_%d.p = %s;' % (target, i, self.addr(a)))
                    else: self.construct_into('&(%s)->_%d' % (target, i), a, ti)
                return
            if t[0] == 'refw':
                if len(args) == 1:
                    a0 = self.strip(args[0])
                    at = L.deref_t(a0['type'])
                    if at[0] == 'refw': self.emit('*(%s) = %s;' % (target, self.rv(args[0])))
                    else: self.emit('(%s)->p = %s;' % (target, self.addr(args[0])))
                    return
            if t[0] == 'pair':
                if len(args) == 2:
                    for nm, a, et in zip(('first', 'second'), args, t[1]):
                        ti = L.tparse(et)
                        if ti[0] == 'ref': self.emit('(%s)->%s = %s;' % (target, nm, self.addr(a)))
                        else: self.construct_into('&(%s)->%s' % (target, nm), a, ti)
                    return
                if len(args) == 1: return self.construct_into(target, args[0], t)
            if t[0] == 'fnobj':
                args = [a for a in args if a.get('kind') != 'CXXDefaultArgExpr']
                if not args: self.emit('(%s)->tag = 0; (%s)->obj = 0;' % (target, target)); return
                a0 = self.strip(args[0]); at = L.deref_t(a0['type'])
                if at[0] == 'fnobj':
                    if self.is_glvalue(args[0]) and not e.get('elidable'):
                        src = self.addr(args[0])
                        self.emit('*(%s) = *(%s);' % (target, src))
                        if params_of(ct)[0].strip().endswith('&&'): self.emit('(%s)->tag = 0; /* moved-from std::function is empty */' % src)
                        return
                    return self.construct_into(target, args[0], t)
                if at[0] == 'rec':
                    ops = [m for m in self.all_call_operators(at[1]) if self.idx.defn.get(m['id']) is not None]
                    if len(ops) != 1: self.unsupported('std::function from a functor without a unique call operator')
                    cl = self.rv(args[0])
                    tag = L.fn_erase(t[1], at[1], ops[0])
                    cs = L.ctype_of(at)
                    self.emit('(%s)->tag = %d; (%s)->obj = VP_NEW(%s); *(%s *)(%s)->obj = %s; /* std::function holding a copy of the closure */' % (target, tag, target, cs, cs, target, cl))
                    return
                self.unsupported('std::function constructed from %s' % (at,))
            if t[0] == 'vec':
                args = [a for a in args if a.get('kind') != 'CXXDefaultArgExpr']
                if not args: self.emit('(%s)->n = 0;' % target); return
                a0 = args[0]
                while a0.get('kind') in ('ExprWithCleanups', 'ImplicitCastExpr', 'ParenExpr'): a0 = a0['inner'][0]
                if a0.get('kind') == 'CXXStdInitializerListExpr':
                    il = a0
                    while il.get('kind') != 'InitListExpr':
                        if not il.get('inner'): self.unsupported('initializer_list without an init list')
                        il = il['inner'][0]
                    items = il.get('inner', [])
                    cap = int(L.cfg.get('vector_cap', 4))
                    if len(items) > cap: self.unsupported('vector initialiser longer than the model capacity %d' % cap)
                    et = L.tparse(t[1])
                    while et[0] == 'alias': et = L.tparse(et[1])
                    for i, it in enumerate(items):
                        self.init_slot('(%s)->a[%d]' % (target, i), et, it)
                    self.emit('(%s)->n = %d;' % (target, len(items)))
                    return
                at = L.deref_t(self.strip(args[0])['type'])
                if at[0] == 'vec':
                    if self.is_glvalue(args[0]) and not e.get('elidable'): self.emit('*(%s) = *(%s);' % (target, self.addr(args[0]))); return
                    return self.construct_into(target, args[0], t)
                self.unsupported('std::vector constructor %s' % ct)
            if t[0] == 'model':
                if (e.get('elidable') or self.is_copy_or_move_ctor(ct, tystr)) and len(args) == 1:
                    a0 = self.strip(args[0])
                    if not self.is_glvalue(args[0]) or e.get('elidable'):
                        return self.construct_into(target, args[0], t)
                model = t[1].split()[-1]
                ps = params_of(ct)
                keep = [i for i, a in enumerate(args) if a.get('kind') != 'CXXDefaultArgExpr']
                ps = [ps[i] for i in keep if i < len(ps)]; args = [args[i] for i in keep]
                nm = 'vpx_%s_ctor' % model + ('__' + '_'.join(tsan(L.ctype(p)) for p in ps) if ps else '')
                cargs = []
                for p, a in zip(ps, args):
                    cargs.append(self.addr(a) if L.is_ref(p) else self.rv(a))
                if model == 'vp_string' and len(args) == 1 and self.strip_casts(args[0]).get('kind') == 'StringLiteral': nm += '_lit'
                L.stubs.setdefault(nm, 'void %s(%s)' % (nm, ', '.join(['%s * self' % t[1]] + [L.ctype(p) for p in ps])))
                L.stats['externals'].add(nm)
                self.emit('%s(%s);' % (nm, ', '.join([target] + cargs)))
                return
            if t[0] == 'builtin' and len(args) <= 1:
                self.emit('*(%s) = %s;' % (target, self.rv(args[0]) if args else '0')); return
            if t[0] == 'initlist' and not args:
                self.emit('(%s)->_e = 0; /* empty std::initializer_list */' % target); return
            self.unsupported('construct %s (%s)' % (tystr, t[0]))
        if k == 'InitListExpr':
            items = e.get('inner', [])
            if t[0] == 'rec':
                rec = t[1]
                bs = self.idx.bases(rec); fs = self.idx.fields(rec)
                slots = [('_b%d' % i, ('rec', br) if br is not None else L.tinfo(b['type']), None) for i, (b, br) in enumerate(bs)] + [(f['name'], L.tinfo(f['type']), f) for f in fs]
                if len(items) > len(slots): self.unsupported('initialiser list too long')
                for (nm, ft, fdecl), it in zip(slots, items):
                    if self.strip(it).get('kind') == 'CXXDefaultInitExpr':
                        # aggregate initialisation leaves this member to its default member initialiser
                        ini = None
                        for c in (fdecl or {}).get('inner', []):
                            if isinstance(c, dict) and c.get('kind') and not c['kind'].endswith('Attr'): ini = c
                        if ini is None: self.unsupported('default member initialiser of %s not in dump' % nm)
                        it = ini
                    while ft[0] == 'alias': ft = L.tparse(ft[1])
                    self.init_slot('(%s)->%s' % (target, nm), ft, it)
                return
            if t[0] == 'stdarray':
                et = L.tparse(t[1])
                # std::array{{...}}: one nested list
                if len(items) == 1 and self.strip(items[0]).get('kind') == 'InitListExpr':
                    items = self.strip(items[0]).get('inner', [])
                for i, it in enumerate(items):
                    self.init_slot('(%s)->e[%d]' % (target, i), et, it)
                return
            if len(items) == 1: return self.construct_into(target, items[0], t)
            if not items: self.emit('/* value-initialised */ __builtin_memset(%s, 0, sizeof(*(%s)));' % (target, target)); return
            self.unsupported('init list for %s' % (t,))
        if k == 'CXXScalarValueInitExpr' or k == 'ImplicitValueInitExpr':
            self.emit('__builtin_memset(%s, 0, sizeof(*(%s)));' % (target, target)); return
        if t[0] == 'uptr':
            at = None
            try: at = L.deref_t(e['type'])
            except Unsupported: pass
            if at is not None and at[0] == 'uptr' and self.is_glvalue(e):
                src = self.lv(e)
                self.emit('*(%s) = %s; %s = 0; /* unique_ptr move */' % (target, self.uptr_conv(src, at, t), src)); return
            if at is not None and at[0] == 'uptr':
                self.emit('*(%s) = %s;' % (target, self.uptr_conv(self.rv(e), at, t))); return
            self.emit('*(%s) = (%s)%s;' % (target, L.ctype_of(t), self.rv(e))); return
        self.emit('*(%s) = %s;' % (target, self.rv(e)))

    def uptr_conv(self, src, from_t, to_t):
        """C expression converting the raw pointer `src` of unique_ptr type from_t to the pointer type of unique_ptr to_t
        (derived -> base: the address of the base subobject, which is not the same address for a non-first base)"""
        L = self.L
        def rec_of(t):
            try:
                p = L.tparse(t[1])
                while p[0] == 'alias': p = L.tparse(p[1])
                return p[1] if p[0] == 'rec' else None
            except Unsupported: return None
        fr = rec_of(from_t) if from_t is not None and from_t[0] == 'uptr' else None
        tr = rec_of(to_t)
        if fr is not None and tr is not None and fr['id'] != tr['id']:
            path = self.idx.base_path(fr, tr)
            if path is None: self.unsupported('unique_ptr conversion between unrelated types')
            if path:
                if not SIMPLE_RE.match(src): x = self.tmp(); self.emit('%s %s = %s;' % (L.ctype_of(from_t), x, src)); src = x
                return '(%s ? &(%s)->%s : (%s)0)' % (src, src, '.'.join(path), L.ctype_of(to_t))
        return '(%s)%s' % (L.ctype_of(to_t), src)

    def init_slot(self, lval, ft, it):
        L = self.L
        if ft[0] == 'ref': self.emit('%s = %s;' % (lval, self.addr(it)))
        elif ft[0] in ('rec', 'tuple', 'stdarray', 'pair', 'refw', 'uptr', 'fnobj', 'vec') or (ft[0] == 'model' and ft[1].startswith('struct')):
            self.construct_into('&' + lval, it, ft)
        else: self.emit('%s = %s;' % (lval, self.rv(it)))

    def trivial_copy(self, rec):
        dd = rec.get('definitionData', {})
        return bool(dd.get('copyCtor', {}).get('trivial')) or bool(dd.get('moveCtor', {}).get('trivial'))

    def materialize(self, e, t=None):
        """construct a temporary from prvalue e; returns its C name"""
        L = self.L
        if t is None: t = L.deref_t(e['type'])
        ct = L.ctype_of(t)
        nm = self.tmp()
        if t[0] == 'uptr': self.emit('%s %s = 0;' % (ct, nm))
        else: self.emit('%s %s;' % (ct, nm))
        if ct.startswith('struct ') and not ct.endswith('*') or t[0] == 'uptr':
            self.construct_into('&' + nm, e, t)
        else:
            self.emit('%s = %s;' % (nm, self.rv(e)))
        d = L.destroy_stmt(t, nm)
        if d: self.scopes[-1].dtors.append(d)   # lifetime extended to the enclosing block (superset of the full-expression)
        return nm

    # ------------------------------------------------------------ operands
    def operands(self, items):
        """items: list of (mode, node), mode in 'rv' | 'addr' | 'lv'.  Left-to-right evaluation,
        spilling earlier non-trivial operands when a later one needs a prelude."""
        res = []
        for mode, e in items:
            f = {'rv': self.rv, 'addr': self.addr, 'lv': self.lv}[mode]
            buf, x = self.capture(lambda: f(e))
            res.append([mode, e, buf, x])
        last = -1
        for i, r in enumerate(res):
            if r[2]: last = i
        out = []
        for i, (mode, e, buf, x) in enumerate(res):
            self.lines += buf
            if i < last and not SIMPLE_RE.match(x):
                if mode == 'lv':
                    t = self.tmp(); self.emit('%s * %s = &(%s);' % (self.L.ctype_of(self.L.deref_t(e['type'])), t, x)); x = '(*%s)' % t
                elif mode == 'addr':
                    t = self.tmp(); self.emit('%s * %s = %s;' % (self.L.ctype_of(self.L.deref_t(e['type'])), t, x)); x = t
                else:
                    t = self.tmp(); self.emit('%s %s = %s;' % (self.L.ctype_of(self.L.deref_t(e['type'])), t, x)); x = t
            out.append(x)
        return out

    def call_args(self, callee, args):
        params = [p for p in callee.get('inner', []) if p.get('kind') == 'ParmVarDecl']
        args = list(args)
        while len(args) < len(params):
            p = params[len(args)]
            d = [c for c in p.get('inner', []) if isinstance(c, dict) and c.get('kind') and not c['kind'].endswith('Attr')]
            if not d: self.unsupported('missing argument without default')
            args.append(d[-1])
        if len(params) != len(args): self.unsupported('argument count for %s' % callee.get('name'))
        items = []
        for p, a in zip(params, args):
            if a.get('kind') == 'CXXDefaultArgExpr':
                d = [c for c in p.get('inner', []) if isinstance(c, dict) and c.get('kind') and not c['kind'].endswith('Attr')]
                if not d: self.unsupported('default argument not in dump')
                a = d[-1]
            items.append(('addr' if self.L.is_ref(p['type']) else 'rv', a))
        return self.operands(items)

    # --------------------------------------------------------------- calls
    def callee_ref(self, e):
        """returns (decl_node_or_None, ref_dict, kind) for a call expression"""
        k = e['kind']
        c = e['inner'][0]
        while c.get('kind') in ('ImplicitCastExpr', 'ParenExpr'): c = c['inner'][0]
        if c.get('kind') == 'MemberExpr':
            mid = c.get('referencedMemberDecl')
            return self.idx.by_id.get(mid), {'id': mid, 'name': c.get('name'), 'type': {'qualType': ''}}, c
        if c.get('kind') == 'DeclRefExpr':
            rd = c['referencedDecl']
            return self.idx.by_id.get(rd['id']), rd, c
        self.unsupported('callee expression ' + str(c.get('kind')))

    def finish_call(self, text, ret_t, returns_ref, may_throw, want_value):
        """hoist a may-throw call into a temporary followed by the exception check"""
        L = self.L
        if not may_throw:
            return text, returns_ref
        if ret_t is None or (ret_t[0] == 'builtin' and ret_t[1] == 'void' and not returns_ref) or not want_value:
            self.emit('%s;' % text); self.check()
            return '', False
        ct = L.ctype_of(ret_t) + (' *' if returns_ref else '')
        t = self.tmp()
        self.emit('%s %s = %s;' % (ct, t, text)); self.check()
        return t, returns_ref

    def call(self, e, want_value=True):
        """lower a call; returns (C expression, is_pointer_to_result)"""
        L = self.L
        k = e['kind']
        decl, rd, cnode = self.callee_ref(e)
        name = (decl or rd).get('name', '')
        returns_ref = self.is_glvalue(e)
        try: ret_t = L.deref_t(e['type'])
        except Unsupported:
            if want_value: raise
            ret_t = None
        in_dump = decl is not None and decl.get('kind') in FUNC_KINDS and (self.idx.defn.get(decl['id']) is not None or L.is_opaque(decl) or decl.get('virtual'))
        if k == 'CXXMemberCallExpr':
            obj = cnode['inner'][0]
            arrow = cnode.get('isArrow')
            args = e['inner'][1:]
            if not in_dump:
                return self.external_member_call(e, name, obj, arrow, args, ret_t, returns_ref, want_value, decl)
            this_item = ('rv', obj) if arrow else ('addr', obj)
            virt = decl.get('virtual') and not self.is_devirtualized(cnode, decl)
            params = [p for p in decl.get('inner', []) if p.get('kind') == 'ParmVarDecl']
            items = [this_item] + [('addr' if L.is_ref(p['type']) else 'rv', a) for p, a in zip(params, args)]
            if len(params) != len(args): self.unsupported('argument count for %s' % name)
            ca = self.operands(items)
            srec = L.rec_of_method(decl)
            ca[0] = '((struct %s *)%s)' % (L.need_rec(srec), ca[0])
            fn = L.need_dispatch(decl, srec) if virt else L.need_fn(decl['id'])
            return self.finish_call('%s(%s)' % (fn, ', '.join(ca)), ret_t, returns_ref, L.fn_may_throw(decl), want_value)
        args = e['inner'][1:]
        if not in_dump:
            return self.external_call(e, name, rd, decl, args, ret_t, returns_ref, want_value)
        if decl['kind'] in ('CXXMethodDecl', 'CXXConversionDecl') and decl.get('storageClass') != 'static':
            params = [p for p in decl.get('inner', []) if p.get('kind') == 'ParmVarDecl']
            items = [('addr', args[0])] + [('addr' if L.is_ref(p['type']) else 'rv', a) for p, a in zip(params, args[1:])]
            ca = self.operands(items)
            srec = L.rec_of_method(decl)
            ca[0] = '((struct %s *)%s)' % (L.need_rec(srec), ca[0])
            virt = decl.get('virtual')
            fn = L.need_dispatch(decl, srec) if virt else L.need_fn(decl['id'])
            return self.finish_call('%s(%s)' % (fn, ', '.join(ca)), ret_t, returns_ref, L.fn_may_throw(decl), want_value)
        ca = self.call_args(decl, args)
        fn = L.need_fn(decl['id'])
        return self.finish_call('%s(%s)' % (fn, ', '.join(ca)), ret_t, returns_ref, L.fn_may_throw(decl), want_value)

    def all_call_operators(self, rec):
        """operator() methods of a closure/functor record, including instantiations of a generic lambda's template"""
        out = []
        for m in rec.get('inner', []):
            if m.get('kind') == 'CXXMethodDecl' and m.get('name') == 'operator()': out.append(m)
            if m.get('kind') == 'FunctionTemplateDecl' and m.get('name') == 'operator()':
                out += [x for x in m.get('inner', []) if x.get('kind') == 'CXXMethodDecl' and any(a.get('kind') == 'TemplateArgument' for a in x.get('inner', []))]
        return out

    def is_devirtualized(self, member_expr, decl):
        # a qualified call (X::f()) suppresses dynamic dispatch; clang's JSON does not expose the
        # qualifier, and trompeloeil has no such call of a virtual function: keep dynamic dispatch.
        return False

    # ---- std:: models ---------------------------------------------------
    def external_member_call(self, e, name, obj, arrow, args, ret_t, returns_ref, want_value, decl):
        L = self.L
        ot = L.deref_t(obj['type'])
        if arrow and ot[0] == 'ptr': ot = L.tparse(ot[1])
        while ot[0] == 'alias': ot = L.tparse(ot[1])
        if ot[0] == 'uptr':
            p = self.lv(obj) if not arrow else '(*%s)' % self.rv(obj)
            if name in ('get', 'operator->'): return p, False
            if name == 'operator*': return p, True
            if name == 'operator bool': return '(%s != 0)' % p, False
            if name == 'release':
                t = self.tmp(); self.emit('%s %s = %s; %s = 0;' % (L.ctype_of(ot), t, p, p)); return t, False
            if name == 'reset':
                nv = self.rv(args[0]) if args else '0'
                t = self.tmp(); self.emit('%s %s = %s; %s = (%s)%s; %s(%s);' % (L.ctype_of(ot), t, p, p, L.ctype_of(ot), nv, L.need_deleter(ot[1]), t)); return '', False
            self.unsupported('unique_ptr::%s' % name)
        if ot[0] == 'refw' and name in ('get', 'operator type-parameter-0-0 &') or (ot[0] == 'refw' and name.startswith('operator ')):
            p = self.lv(obj) if not arrow else '(*%s)' % self.rv(obj)
            return '%s.p' % p, True
        if ot[0] == 'stdarray':
            base = self.addr(obj) if not arrow else self.rv(obj)
            n = ot[2]
            if name in ('begin', 'cbegin', 'data'): return '(&(%s)->e[0])' % base, False
            if name in ('end', 'cend'): return '(&(%s)->e[%d])' % (base, n), False
            if name == 'size': return '%dUL' % n, False
            if name == 'operator[]': return '(&(%s)->e[%s])' % (base, self.rv(args[0])), True
            self.unsupported('std::array::%s' % name)
        if ot[0] == 'ptr' and not arrow and (name.startswith('operator') or name == 'base'):
            # member operators of an iterator modelled as an element pointer
            if name == 'base': return self.rv(obj), False
            if name == 'operator*': return self.rv(obj), True
            if name == 'operator->': return self.rv(obj), False
            if name in ('operator++', 'operator--'):
                x = self.lv(obj)
                if not args: self.emit('%s%s;' % (name[8:], x)); return '&' + x, True
                t = self.tmp(); self.emit('%s %s = %s; %s%s;' % (L.ctype_of(ot), t, x, x, name[8:])); return t, False
            if name in ('operator+', 'operator-') and len(args) == 1:
                a, b = self.operands([('rv', obj), ('rv', args[0])])
                return '(%s %s %s)' % (a, name[8:], b), False
            if name in ('operator+=', 'operator-=') and len(args) == 1:
                x, b = self.operands([('lv', obj), ('rv', args[0])])
                self.emit('%s %s %s;' % (x, name[8:], b)); return '&' + x, True
            if name == 'operator[]' and len(args) == 1:
                a, b = self.operands([('rv', obj), ('rv', args[0])])
                return '(&%s[%s])' % (a, b), True
        if ot[0] == 'vec':
            base = self.addr(obj) if not arrow else self.rv(obj)
            if not SIMPLE_RE.match(base): x = self.tmp(); self.emit('%s * %s = %s;' % (L.ctype_of(ot), x, base)); base = x
            if name in ('begin', 'cbegin', 'data'): return '(&(%s)->a[0])' % base, False
            if name in ('end', 'cend'): return '(&(%s)->a[(%s)->n])' % (base, base), False
            if name == 'size': return '((%s)->n)' % base, False
            if name == 'empty': return '((%s)->n == 0)' % base, False
            if name == 'back':
                self.emit('VP_SAFETY((%s)->n > 0, "std::vector::back() on an empty vector");' % base)
                return '(&(%s)->a[(%s)->n - 1])' % (base, base), True
            if name == 'pop_back':
                self.emit('VP_SAFETY((%s)->n > 0, "std::vector::pop_back() on an empty vector");' % base)
                self.emit('(%s)->n = (%s)->n - 1;' % (base, base)); return '', False
            if name == 'push_back' and len(args) == 1:
                et = L.tparse(ot[1])
                while et[0] == 'alias': et = L.tparse(et[1])
                self.emit('VP_MODEL_BOUND((%s)->n < VP_VEC_CAP, "std::vector model capacity");' % base)
                self.init_slot('(%s)->a[(%s)->n]' % (base, base), et, args[0])
                self.emit('(%s)->n = (%s)->n + 1;' % (base, base)); return '', False
            if name == 'erase' and len(args) in (1, 2):
                et = L.tparse(ot[1])
                while et[0] == 'alias': et = L.tparse(et[1])
                if et[0] not in ('fnobj', 'builtin', 'ptr'): self.unsupported('std::vector::erase over elements of type %s' % (et,))
                ect = L.ctype_of(et)
                ops = self.operands([('rv', a) for a in args])
                f = self.tmp('_ef'); l = self.tmp('_el')
                self.emit('%s * %s = %s; %s * %s = %s;' % (ect, f, ops[0], ect, l, ops[1] if len(args) == 2 else '%s + 1' % ops[0]))
                self.emit('VP_SAFETY(&(%s)->a[0] <= %s && %s <= %s && %s <= &(%s)->a[(%s)->n], "std::vector::erase() with an invalid iterator range");' % (base, f, f, l, l, base, base))
                self.emit('{ %s * _s = %s; %s * _d = %s; while (_s != &(%s)->a[(%s)->n]) { *_d = *_s; ++_d; ++_s; } (%s)->n = (%s)->n - (unsigned long)(%s - %s); } /* std::vector::erase: the tail moves down */' % (ect, l, ect, f, base, base, base, base, l, f))
                self.loops_closed += 1
                return f, False
            self.unsupported('std::vector::%s' % name)
        if ot[0] == 'fnobj':
            this = self.rv(obj) if arrow else self.addr(obj)
            if name == 'operator()':
                ps = params_of(ot[1])
                items = [('addr' if L.is_ref(p) else 'rv', a) for p, a in zip(ps, args)]
                ca = self.operands(items)
                return self.finish_call('%s(%s)' % (L.fn_dispatcher(ot[1]), ', '.join([this] + ca)), ret_t, returns_ref, True, want_value)
            if name == 'operator bool': return '((%s)->tag != 0)' % this, False
            self.unsupported('std::function::%s' % name)
        if (ot[0] == 'builtin' or (ot[0] == 'model' and not ot[1].startswith('struct'))) and (name.startswith('operator ') or name in ('load',)):
            return (self.lv(obj) if not arrow else '(*%s)' % self.rv(obj)), False   # atomic<T> -> T
        if ot[0] == 'model' or ot[0] == 'initlist' or ot[0] == 'rec':
            ctn = L.ctype_of(ot)
            model = ctn.split()[-1]
            this = self.rv(obj) if arrow else self.addr(obj)
            cargs = []; ptys = []
            pts = params_of(decl['type']['qualType']) if decl is not None and decl.get('type') else None
            for i, a in enumerate(args):
                if a.get('kind') == 'CXXDefaultArgExpr': continue
                if pts is not None and i < len(pts) and L.is_ref(pts[i]) or (pts is None and self.is_glvalue(a) and L.ctype_of(L.deref_t(a['type'])).startswith('struct')):
                    cargs.append(self.addr(a)); ptys.append(L.ctype_of(L.deref_t(a['type'])) + ' *')
                else:
                    cargs.append(self.rv(a)); ptys.append(L.ctype_of(L.deref_t(a['type'])))
            nm = 'vpx_%s_%s' % (model, sanitize(name.replace('operator()', 'call').replace('operator', 'op')))
            if ptys: nm += '__' + '_'.join(tsan(p) for p in ptys)
            rct = 'void' if ret_t is None else L.ctype_of(ret_t) + (' *' if returns_ref else '')
            L.stubs.setdefault(nm, '%s %s(%s)' % (rct, nm, ', '.join(['%s * self' % ctn] + ptys)))
            L.stats['externals'].add(nm)
            may_throw = nm in L.cfg.get('throwing_externals', []) or (ot[0] == 'model' and model == 'vp_function' and name == 'operator()')
            return self.finish_call('%s(%s)' % (nm, ', '.join([this] + cargs)), ret_t, returns_ref, may_throw, want_value)
        self.unsupported('member call %s on %s' % (name, ot))

    def external_call(self, e, name, rd, decl, args, ret_t, returns_ref, want_value):
        L = self.L
        if name in ('ref', 'cref') and len(args) == 1 and ret_t is not None and ret_t[0] == 'refw':
            t = self.tmp(); self.emit('%s %s;' % (L.ctype_of(ret_t), t))
            at = L.deref_t(args[0]['type'])
            if at[0] == 'refw': self.emit('%s = %s;' % (t, self.rv(args[0])))
            else: self.emit('%s.p = %s;' % (t, self.addr(args[0])))
            return t, False
        if name == 'make_unique' and ret_t is not None and ret_t[0] == 'uptr':
            # std::make_unique<T>(args...) = unique_ptr<T>(new T(std::forward<Args>(args)...)): the constructor is chosen among T's
            # instantiated constructors by arity and parameter types (unique choice, else extraction break)
            pt = L.tparse(ret_t[1])
            while pt[0] == 'alias': pt = L.tparse(pt[1])
            if pt[0] != 'rec': self.unsupported('std::make_unique of %s' % (pt,))
            rec = pt[1]; ctors = []
            for m in rec.get('inner', []):
                cs = [m] if m.get('kind') == 'CXXConstructorDecl' else [x for x in m.get('inner', []) if x.get('kind') == 'CXXConstructorDecl' and any(a.get('kind') == 'TemplateArgument' for a in x.get('inner', []))] if m.get('kind') == 'FunctionTemplateDecl' else []   # instantiations only, not the template pattern
                for c in cs:
                    if self.idx.defn.get(c['id']) is None: continue
                    ps = [p for p in c.get('inner', []) if p.get('kind') == 'ParmVarDecl']
                    if len(ps) != len(args): continue
                    ctors.append(c)
            if len(ctors) > 1:
                # several constructors of that arity: the parameter types decide (arrays decay to pointers)
                def base(t): return norm(re.sub(r'\[\d*\]$', '*', re.sub(r'&+$', '', t.strip())))
                ctors = [c for c in ctors if all(base(qt(p['type'])) == base(qt(a['type'])) for p, a in zip([p for p in c.get('inner', []) if p.get('kind') == 'ParmVarDecl'], args))]
            if len(ctors) > 1:
                # perfect forwarding: an lvalue argument selects the instantiation with `T &`, an rvalue the one with `T &&` (or by value)
                def cat_ok(p, a):
                    t = qt(p['type']).strip()
                    if not t.endswith('&'): return True
                    return (a.get('valueCategory') == 'lvalue') == (not t.endswith('&&'))
                ctors = [c for c in ctors if all(cat_ok(p, a) for p, a in zip([p for p in c.get('inner', []) if p.get('kind') == 'ParmVarDecl'], args))]
            if len(ctors) != 1: self.unsupported('std::make_unique<%s>: %d constructors fit the arguments' % (ret_t[1], len(ctors)))
            ct = L.ctype_of(pt); p = self.tmp('_new')
            # arguments are forwarded: an array (string literal) bound to a pointer parameter decays
            prm = [q for q in ctors[0].get('inner', []) if q.get('kind') == 'ParmVarDecl']
            cargs = []
            for q, a in zip(prm, args):
                a0 = self.strip_casts(a)
                if a0.get('kind') == 'StringLiteral' and not L.is_ref(q['type']): cargs.append(a0['value'])
                else: cargs.append(self.operands([('addr' if L.is_ref(q['type']) else 'rv', a)])[0])
            self.emit('%s * %s = (%s *)malloc(sizeof(%s)); /* std::make_unique */' % (ct, p, ct, ct))
            self.emit('%s(%s);' % (L.need_fn(ctors[0]['id']), ', '.join([p] + cargs)))
            if L.fn_may_throw(ctors[0]): self.check()
            return p, False
        if name in ('move', 'forward', 'addressof', 'as_const') and len(args) == 1:
            a = args[0]
            if name == 'addressof': return self.addr(a), False
            if self.is_glvalue(a): return self.addr(a), True
            return self.addr(a), True
        if name == 'for_each' and len(args) == 3:
            t0 = L.deref_t(args[0]['type']); t2 = L.deref_t(args[2]['type'])
            if t0[0] == 'ptr' and t2[0] == 'rec':
                op = [m for m in self.all_call_operators(t2[1]) if self.idx.defn.get(m['id']) is not None]
                if len(op) != 1: self.unsupported('std::for_each functor without a unique operator()')
                a, b = self.operands([('rv', args[0]), ('rv', args[1])])
                cl = self.rv(args[2])
                if not SIMPLE_RE.match(cl): x = self.tmp(); self.emit('%s %s = %s;' % (L.ctype_of(t2), x, cl)); cl = x
                it = self.tmp('_it'); ct = L.ctype_of(t0)
                self.emit('%s %s = %s; %s %s_end = %s;' % (ct, it, a, ct, it, b))
                fn = L.need_fn(op[0]['id'])
                prm = [p for p in op[0].get('inner', []) if p.get('kind') == 'ParmVarDecl'][0]
                argx = it if L.is_ref(prm['type']) else '(%s)(*%s)' % (L.ctype(prm['type']), it)
                self.emit('while (%s != %s_end) { /* std::for_each */' % (it, it))
                self.emit('  %s(&%s, %s);' % (fn, cl, argx))
                if L.fn_may_throw(op[0]):
                    self.ind += 1; self.check(); self.ind -= 1
                self.emit('  ++%s;' % it); self.emit('}')
                self.loops_closed += 1
                return cl, False
        if name in ('begin', 'end', 'cbegin', 'cend') and len(args) == 1:
            at = L.deref_t(args[0]['type'])
            if at[0] == 'array':
                base = self.addr(args[0])
                return '(&(%s)->a[%d])' % (base, 0 if 'begin' in name else at[2]), False
            if at[0] == 'stdarray':
                base = self.addr(args[0])
                return '(&(%s)->e[%d])' % (base, 0 if 'begin' in name else at[2]), False
            if at[0] == 'vec':
                base = self.addr(args[0])
                if not SIMPLE_RE.match(base): x = self.tmp(); self.emit('%s * %s = %s;' % (L.ctype_of(at), x, base)); base = x
                return ('(&(%s)->a[0])' % base if 'begin' in name else '(&(%s)->a[(%s)->n])' % (base, base)), False
            if at[0] == 'rec':
                want = name.lstrip('c') if name.startswith('c') else name
                ms = [m for m in self.idx.methods(at[1]) if m.get('name') == want and not [p for p in m.get('inner', []) if p.get('kind') == 'ParmVarDecl'] and self.idx.defn.get(m['id']) is not None]
                cm = [m for m in ms if 'const' in m['type']['qualType'].rsplit(')', 1)[-1]]
                glv_const = 'const' in qt(args[0]['type']).split('<')[0] or name.startswith('c')
                pick = (cm if glv_const and cm else [m for m in ms if m not in cm] or cm)
                if len(pick) == 1:
                    this = self.addr(args[0])
                    return self.finish_call('%s((struct %s *)%s)' % (L.need_fn(pick[0]['id']), L.need_rec(L.rec_of_method(pick[0])), this), ret_t, returns_ref, L.fn_may_throw(pick[0]), want_value)
        if name in ('equal', 'mismatch') and len(args) == 5:
            ts = [L.deref_t(a['type']) for a in args]
            if all(t[0] == 'ptr' for t in ts[:4]) and ts[4][0] == 'rec':
                ops = [m for m in self.all_call_operators(ts[4][1]) if self.idx.defn.get(m['id']) is not None]
                if len(ops) != 1: self.unsupported('std::%s functor without a unique instantiated operator()' % name)
                a1, b1, a2, b2 = self.operands([('rv', a) for a in args[:4]])
                cl = self.rv(args[4])
                if not SIMPLE_RE.match(cl): x = self.tmp(); self.emit('%s %s = %s;' % (L.ctype_of(ts[4]), x, cl)); cl = x
                i1 = self.tmp('_it'); i2 = self.tmp('_it'); c1 = L.ctype_of(ts[0]); c2 = L.ctype_of(ts[2])
                self.emit('%s %s = %s; %s %s_end = %s; %s %s = %s; %s %s_end = %s;' % (c1, i1, a1, c1, i1, b1, c2, i2, a2, c2, i2, b2))
                fn = L.need_fn(ops[0]['id'])
                prms = [p for p in ops[0].get('inner', []) if p.get('kind') == 'ParmVarDecl']
                ax = [it if L.is_ref(p['type']) else '(%s)(*%s)' % (L.ctype(p['type']), it) for p, it in zip(prms, (i1, i2))]
                if name == 'equal':
                    res = self.tmp('_alg')
                    self.emit('_Bool %s = (%s_end - %s) == (%s_end - %s); /* std::equal, random access: the lengths are compared first */' % (res, i1, i1, i2, i2))
                    self.emit('while (%s && %s != %s_end) {' % (res, i1, i1))
                else:
                    self.emit('while (%s != %s_end && %s != %s_end) { /* std::mismatch: first position where the predicate fails or a range ends */' % (i1, i1, i2, i2))
                self.emit('  _Bool _p = %s(&%s, %s);' % (fn, cl, ', '.join(ax)))
                if L.fn_may_throw(ops[0]):
                    self.ind += 1; self.check(); self.ind -= 1
                if name == 'equal': self.emit('  if (!_p) { %s = 0; break; }' % res)
                else: self.emit('  if (!_p) break;')
                self.emit('  ++%s; ++%s;' % (i1, i2)); self.emit('}')
                self.loops_closed += 1
                if name == 'equal': return res, False
                pr = self.tmp(); self.emit('%s %s; %s.first = %s; %s.second = %s;' % (L.ctype_of(ret_t), pr, pr, i1, pr, i2))
                return pr, False
        if name in ('all_of', 'any_of', 'none_of') and len(args) == 3:
            t0 = L.deref_t(args[0]['type']); t2 = L.deref_t(args[2]['type'])
            if t0[0] == 'ptr' and t2[0] == 'rec':
                ops = [m for m in self.all_call_operators(t2[1]) if self.idx.defn.get(m['id']) is not None]
                if len(ops) != 1: self.unsupported('std::%s functor without a unique instantiated operator()' % name)
                a, b = self.operands([('rv', args[0]), ('rv', args[1])])
                cl = self.rv(args[2])
                if not SIMPLE_RE.match(cl): x = self.tmp(); self.emit('%s %s = %s;' % (L.ctype_of(t2), x, cl)); cl = x
                it = self.tmp('_it'); ct = L.ctype_of(t0); res = self.tmp('_alg')
                self.emit('%s %s = %s; %s %s_end = %s; _Bool %s = %s;' % (ct, it, a, ct, it, b, res, '0' if name == 'any_of' else '1'))
                fn = L.need_fn(ops[0]['id'])
                prm = [p for p in ops[0].get('inner', []) if p.get('kind') == 'ParmVarDecl'][0]
                argx = it if L.is_ref(prm['type']) else '(%s)(*%s)' % (L.ctype(prm['type']), it)
                self.emit('while (%s != %s_end) { /* std::%s: stops at the first element that decides */' % (it, it, name))
                self.emit('  _Bool _p = %s(&%s, %s);' % (fn, cl, argx))
                if L.fn_may_throw(ops[0]):
                    self.ind += 1; self.check(); self.ind -= 1
                if name == 'all_of': self.emit('  if (!_p) { %s = 0; break; }' % res)
                elif name == 'any_of': self.emit('  if (_p) { %s = 1; break; }' % res)
                else: self.emit('  if (_p) { %s = 0; break; }' % res)
                self.emit('  ++%s;' % it); self.emit('}')
                self.loops_closed += 1
                return res, False
        if name == 'find_if' and len(args) == 3:
            t0 = L.deref_t(args[0]['type']); t2 = L.deref_t(args[2]['type'])
            if t0[0] == 'ptr' and t2[0] == 'rec':
                ops = [m for m in self.all_call_operators(t2[1]) if self.idx.defn.get(m['id']) is not None]
                if len(ops) != 1: self.unsupported('std::find_if functor without a unique instantiated operator()')
                a, b = self.operands([('rv', args[0]), ('rv', args[1])])
                cl = self.rv(args[2])
                if not SIMPLE_RE.match(cl): x = self.tmp(); self.emit('%s %s = %s;' % (L.ctype_of(t2), x, cl)); cl = x
                it = self.tmp('_it'); ct = L.ctype_of(t0)
                self.emit('%s %s = %s; %s %s_end = %s;' % (ct, it, a, ct, it, b))
                fn = L.need_fn(ops[0]['id'])
                prm = [p for p in ops[0].get('inner', []) if p.get('kind') == 'ParmVarDecl'][0]
                argx = it if L.is_ref(prm['type']) else '(%s)(*%s)' % (L.ctype(prm['type']), it)
                self.emit('while (%s != %s_end) { /* std::find_if: first element the predicate accepts, else last */' % (it, it))
                self.emit('  _Bool _p = %s(&%s, %s);' % (fn, cl, argx))
                if L.fn_may_throw(ops[0]):
                    self.ind += 1; self.check(); self.ind -= 1
                self.emit('  if (_p) break;')
                self.emit('  ++%s;' % it); self.emit('}')
                self.loops_closed += 1
                return it, False
        if name == 'remove_if' and len(args) == 3:
            t0 = L.deref_t(args[0]['type']); t2 = L.deref_t(args[2]['type'])
            if t0[0] == 'ptr' and t2[0] == 'rec':
                et = L.tparse(t0[1])
                while et[0] == 'alias': et = L.tparse(et[1])
                if et[0] not in ('fnobj', 'builtin', 'ptr'): self.unsupported('std::remove_if over elements of type %s' % (et,))
                ops = [m for m in self.all_call_operators(t2[1]) if self.idx.defn.get(m['id']) is not None]
                if len(ops) != 1: self.unsupported('std::remove_if functor without a unique instantiated operator()')
                a, b = self.operands([('rv', args[0]), ('rv', args[1])])
                cl = self.rv(args[2])
                if not SIMPLE_RE.match(cl): x = self.tmp(); self.emit('%s %s = %s;' % (L.ctype_of(t2), x, cl)); cl = x
                it = self.tmp('_it'); ct = L.ctype_of(t0)
                self.emit('%s %s = %s; %s %s_end = %s; %s %s_out = %s;' % (ct, it, a, ct, it, b, ct, it, a))
                fn = L.need_fn(ops[0]['id'])
                prm = [p for p in ops[0].get('inner', []) if p.get('kind') == 'ParmVarDecl'][0]
                argx = it if L.is_ref(prm['type']) else '(%s)(*%s)' % (L.ctype(prm['type']), it)
                self.emit('while (%s != %s_end) { /* std::remove_if: elements the predicate rejects are moved to the front, in order */' % (it, it))
                self.emit('  _Bool _p = %s(&%s, %s);' % (fn, cl, argx))
                if L.fn_may_throw(ops[0]):
                    self.ind += 1; self.check(); self.ind -= 1
                self.emit('  if (!_p) { if (%s_out != %s) *%s_out = *%s; ++%s_out; }' % (it, it, it, it, it))
                self.emit('  ++%s;' % it); self.emit('}')
                self.loops_closed += 1
                return it + '_out', False
        if len(args) == 2 and name in ('operator+', 'operator-', 'operator<', 'operator<=', 'operator>', 'operator>=') and L.deref_t(args[0]['type'])[0] == 'ptr' and L.deref_t(args[1]['type'])[0] in ('ptr', 'builtin'):
            # random-access iterator arithmetic / ordering on an iterator modelled as an element pointer
            a, b = self.operands([('rv', args[0]), ('rv', args[1])])
            return '(%s %s %s)' % (a, name[8:], b), False
        if len(args) in (1, 2) and name in ('operator++', 'operator--') and L.deref_t(args[0]['type'])[0] == 'ptr':
            x = self.lv(args[0])
            if len(args) == 1: self.emit('%s%s;' % (name[8:], x)); return '&' + x, True
            t = self.tmp(); self.emit('%s %s = %s; %s%s;' % (L.ctype_of(L.deref_t(args[0]['type'])), t, x, x, name[8:])); return t, False
        if len(args) == 2 and name in ('operator+=', 'operator-=') and L.deref_t(args[0]['type'])[0] == 'ptr':
            x, b = self.operands([('lv', args[0]), ('rv', args[1])])
            self.emit('%s %s %s;' % (x, name[8:], b)); return '&' + x, True
        if len(args) == 2 and name == 'operator[]' and L.deref_t(args[0]['type'])[0] == 'ptr':
            a, b = self.operands([('rv', args[0]), ('rv', args[1])])
            return '(&%s[%s])' % (a, b), True
        if name in ('operator!=', 'operator==') and len(args) == 2 and 'uptr' in (L.deref_t(args[0]['type'])[0], L.deref_t(args[1]['type'])[0]):
            # unique_ptr compared with nullptr (or with another unique_ptr): the owned pointers are compared
            xs = []
            for a in args:
                xs.append(self.lv(a) if L.deref_t(a['type'])[0] == 'uptr' and self.is_glvalue(a) else self.rv(a))
            return '((void *)%s %s (void *)%s)' % (xs[0], name[8:], xs[1]), False
        if name in ('operator!=', 'operator==') and len(args) == 2 and L.deref_t(args[0]['type'])[0] == 'ptr' and L.deref_t(args[1]['type'])[0] == 'ptr':
            a, b = self.operands([('rv', args[0]), ('rv', args[1])])
            return '(%s %s %s)' % (a, name[8:], b), False
        if name == 'operator*' and len(args) == 1 and L.deref_t(args[0]['type'])[0] == 'ptr':
            return self.rv(args[0]), True
        if name == 'operator=' and len(args) == 2 and L.deref_t(args[0]['type'])[0] == 'fnobj':
            rt0 = L.deref_t(self.strip(args[1])['type'])
            if rt0[0] != 'fnobj': self.unsupported('std::function assigned from %s' % (rt0,))
            lhs, rhs = self.operands([('addr', args[0]), ('addr', args[1])])
            moved = params_of((decl or rd)['type']['qualType'])[0].strip().endswith('&&')
            tv = self.tmp(); self.emit('struct vp_fnobj %s = *(%s);' % (tv, rhs))
            if moved: self.emit('(%s)->tag = 0; /* function(std::move(x)).swap(*this): the source is left empty, self-move keeps the target */' % rhs)
            self.emit('*(%s) = %s;' % (lhs, tv))
            return lhs, True
        if name == 'operator()' and len(args) >= 1 and L.deref_t(args[0]['type'])[0] == 'fnobj':
            ft = L.deref_t(args[0]['type'])
            ps = params_of(ft[1])
            items = [('addr', args[0])] + [('addr' if L.is_ref(p) else 'rv', a) for p, a in zip(ps, args[1:])]
            ca = self.operands(items)
            return self.finish_call('%s(%s)' % (L.fn_dispatcher(ft[1]), ', '.join(ca)), ret_t, returns_ref, True, want_value)
        if name == 'distance' and len(args) == 2 and L.deref_t(args[0]['type'])[0] == 'ptr':
            a, b = self.operands([('rv', args[0]), ('rv', args[1])])
            return '(%s - %s)' % (b, a), False
        if name == 'advance' and len(args) == 2 and L.deref_t(args[0]['type'])[0] == 'ptr':
            a, b = self.operands([('lv', args[0]), ('rv', args[1])])
            self.emit('%s = %s + (%s);' % (a, a, b)); return '', False
        if name in ('uncaught_exception', 'uncaught_exceptions') and not args:
            # true while destructors run because an exception is propagating (ghost counter kept by the unwinding blocks)
            return ('(vp_unwinding > 0)' if name == 'uncaught_exception' else 'vp_unwinding'), False
        if name in ('abort', 'terminate'):
            self.emit('vp_abort();'); return '', False
        if name == 'get' and len(args) == 1:
            at = L.deref_t(args[0]['type'])
            if at[0] in ('tuple', 'pair'):
                fty = (rd.get('type') or {}).get('qualType', '')
                m = re.search(r'tuple_element(?:_t)?<(\d+)', fty)
                idx = None
                if m: idx = int(m.group(1))
                else:
                    els = at[1]
                    want = norm(qt(e['type']))
                    cands = [i for i, x in enumerate(els) if norm(x).rstrip('&') == want.rstrip('&')]
                    if len(cands) == 1: idx = cands[0]
                    elif len(els) == 1: idx = 0
                if idx is None: self.unsupported('std::get index (%s)' % fty)
                base = self.addr(args[0])
                fld = ('_%d' % idx) if at[0] == 'tuple' else ('first', 'second')[idx]
                elt = L.tparse(at[1][idx])
                if elt[0] == 'ref': return '(%s)->%s' % (base, fld), True
                return '(&(%s)->%s)' % (base, fld), True
        if name in ('operator->', 'operator*', 'operator bool', 'get') and len(args) == 1:
            at = L.deref_t(args[0]['type'])
            if at[0] == 'uptr':
                p = self.lv(args[0])
                if name == 'operator*': return p, True
                if name == 'operator bool': return '(%s != 0)' % p, False
                return p, False
        if name == 'operator=' and len(args) == 2:
            lt = L.deref_t(args[0]['type'])
            if lt[0] == 'model' and lt[1] == 'struct vp_function':
                r0 = self.strip_casts(args[1])
                if r0.get('kind') == 'DeclRefExpr' and r0['referencedDecl'].get('kind') == 'FunctionDecl':
                    # std::function assigned from a named function: in the opaque model a function object is its identity
                    fid = -(1 + int(hashlib.md5((r0['referencedDecl'].get('name') or '').encode()).hexdigest()[:6], 16) % 1000)
                    lhs, = self.operands([('addr', args[0])])
                    self.emit('(%s)->id = %d; /* = function %s */' % (lhs, fid, r0['referencedDecl'].get('name')))
                    return lhs, True
            if lt[0] in ('builtin',) or (lt[0] == 'model' and not lt[1].startswith('struct')):
                lhs, rhs = self.operands([('lv', args[0]), ('rv', args[1])])
                self.emit('%s = %s;' % (lhs, rhs))
                return '&' + lhs, True
            if lt[0] == 'uptr':
                lhs, = self.operands([('lv', args[0])])
                rt = None
                r0 = self.strip(args[1])
                try: rt = L.deref_t(r0['type'])
                except Unsupported: pass
                old = self.tmp()
                self.emit('%s %s = %s;' % (L.ctype_of(lt), old, lhs))
                if rt is not None and rt[0] == 'uptr' and self.is_glvalue(args[1]):
                    src = self.lv(args[1])
                    self.emit('%s = %s; %s = 0; /* unique_ptr move-assign */' % (lhs, self.uptr_conv(src, rt, lt), src))
                else:
                    if rt is not None and rt[0] == 'uptr':
                        tmpv = self.materialize(args[1], rt)
                        self.emit('%s = %s; %s = 0;' % (lhs, self.uptr_conv(tmpv, rt, lt), tmpv))
                    else:
                        self.emit('%s = (%s)%s;' % (lhs, L.ctype_of(lt), self.rv(args[1])))
                self.emit('%s(%s);' % (L.need_deleter(lt[1]), old))
                return '&' + lhs, True
        # generic external function -> stub named after the function and its lowered parameter types
        fty = (rd.get('type') or (decl or {}).get('type') or {}).get('qualType', '')
        pts = params_of(fty)
        cargs = []; ptys = []
        items = []
        for i, a in enumerate(args):
            if a.get('kind') == 'CXXDefaultArgExpr': continue
            a0 = self.strip_casts(a)
            if a0.get('kind') == 'DeclRefExpr' and a0['referencedDecl'].get('kind') == 'FunctionDecl' and a0['referencedDecl']['id'] not in self.idx.by_id:
                # a standard-library function passed by reference (stream manipulator std::hex, std::right, ...): an id
                items.append(('lit', 'VP_MANIP_' + sanitize(a0['referencedDecl'].get('name')))); ptys.append('manip')
                continue
            byref = (i < len(pts) and L.is_ref(pts[i]))
            at = L.deref_t(a['type'])
            structish = L.ctype_of(at).startswith('struct ') and at[0] != 'ptr'
            if byref or (structish and self.is_glvalue(a)):
                items.append(('addr', a)); ptys.append(L.ctype_of(at) + ' *')
            else:
                items.append(('rv', a)); ptys.append(L.ctype_of(at))
        lits = {k: v for k, (m, v) in enumerate(items) if m == 'lit'}
        cargs = self.operands([it for it in items if it[0] != 'lit'])
        for k in sorted(lits): cargs.insert(k, lits[k])
        ptys = ['int' if p == 'manip' else p for p in ptys]
        if lits: name = name + '_manip'
        nm = 'vpx_' + sanitize(name.replace('operator<<', 'op_shl').replace('operator>>', 'op_shr').replace('operator==', 'op_eq').replace('operator!=', 'op_ne').replace('operator+', 'op_plus').replace('operator|', 'op_or').replace('operator&', 'op_and').replace('operator~', 'op_not').replace('operator()', 'op_call').replace('operator', 'op_'))
        if ptys: nm += '__' + '_'.join(tsan(p) for p in ptys)
        # constant text streamed into an ostream (string / character literals) is told apart from data: the
        # token-log model of ostringstream records data tokens only
        if name == 'operator<<' and len(args) == 2 and self.strip_casts(args[1]).get('kind') in ('StringLiteral', 'CharacterLiteral'):
            nm += '_lit'
        rct = 'void' if ret_t is None else L.ctype_of(ret_t) + (' *' if returns_ref else '')
        L.stubs.setdefault(nm, '%s %s(%s)' % (rct, nm, ', '.join(ptys) or 'void'))
        L.stats['externals'].add(nm)
        may_throw = nm in L.cfg.get('throwing_externals', []) or ('vp_function' in nm and 'op_call' in nm)
        return self.finish_call('%s(%s)' % (nm, ', '.join(cargs)), ret_t, returns_ref, may_throw, want_value)

    # ---------------------------------------------------------- expressions
    def base_cast_ptr(self, e, ptr_text):
        """pointer conversion along e['path'] for Derived<->Base casts; ptr_text is the operand pointer"""
        L = self.L
        ck = e.get('castKind')
        tt = L.deref_t(e['type'])
        if tt[0] == 'ptr': tt = L.tparse(tt[1])
        inner = e['inner'][-1]
        try:
            st = L.deref_t(inner['type'])
            if st[0] == 'ptr': st = L.tparse(st[1])
        except Unsupported:
            # `new alias(...)` where the alias is local to an instantiation: the allocated type is that of the construct expression
            ne = self.strip_casts(inner)
            ce = ne['inner'][-1] if ne.get('kind') == 'CXXNewExpr' and ne.get('inner') else None
            if ce is None or not (isinstance(ce.get('type'), dict) and ce['type'].get('desugaredQualType')): raise
            st = L.tparse(ce['type']['desugaredQualType'])
        if st[0] == 'ptr': st = L.tparse(st[1])
        while tt[0] == 'alias': tt = L.tparse(tt[1])
        while st[0] == 'alias': st = L.tparse(st[1])
        if tt[0] == 'model' and st[0] == 'model' and tt[1] == st[1]:
            return ptr_text     # e.g. ostringstream -> ostream: one model type
        if st[0] == 'rec' and tt[0] == 'uptr' and ck in ('DerivedToBase', 'UncheckedDerivedToBase'):
            # a class derived from std::unique_ptr<T> (lifetime_monitor_modifier): the base subobject is the owning pointer itself
            for bk, (b, br) in enumerate(self.idx.bases(st[1])):
                if br is None:
                    bt = L.tinfo(b['type'])
                    if bt[0] == 'uptr' and norm(bt[1]) == norm(tt[1]): return '(&(%s)->_b%d)' % (ptr_text, bk)
            self.unsupported('unique_ptr base not found')
        if tt[0] != 'rec' or st[0] != 'rec':
            # base that is a std model (e.g. unique_ptr base of lifetime_monitor_modifier)
            self.unsupported('base cast between %s and %s' % (st[0], tt[0]))
        if ck in ('DerivedToBase', 'UncheckedDerivedToBase'):
            path = self.idx.base_path(st[1], tt[1])
            if path is None: self.unsupported('base path')
            tc = L.need_rec(tt[1])
            if not path: return ptr_text
            if all(p == '_b0' for p in path):
                # base subobject at offset 0: its ADDRESS AS A MEMBER (typed), not a pointer cast - CBMC keeps
                # exact (object, offset) points-to information for member addresses, not for struct-pointer casts
                return '(&(%s)->%s)' % (ptr_text, '.'.join(path))
            if not SIMPLE_RE.match(ptr_text):
                t = self.tmp(); self.emit('%s * %s = %s;' % (L.ctype_of(st), t, ptr_text)); ptr_text = t
            return '(%s ? &(%s)->%s : (struct %s *)0)' % (ptr_text, ptr_text, '.'.join(path), tc)
        if ck == 'BaseToDerived':
            path = self.idx.base_path(tt[1], st[1])
            if path is None: self.unsupported('base path')
            tc = L.need_rec(tt[1])
            if all(p == '_b0' for p in path): return '((struct %s *)%s)' % (tc, ptr_text)
            return '((struct %s *)((char *)%s - __builtin_offsetof(struct %s, %s)))' % (tc, ptr_text, tc, '.'.join(path))
        self.unsupported('cast kind ' + str(ck))

    def addr(self, e):
        """C pointer expression to the object designated by glvalue e (or to a temporary for a prvalue)"""
        self.note(e)
        k = e.get('kind')
        if k in WRAPPERS or k == 'SubstNonTypeTemplateParmExpr': return self.addr(e['inner'][-1])
        if k == 'MaterializeTemporaryExpr':
            inner = e['inner'][0]
            return '&' + self.materialize(inner, self.L.deref_t(e['type']))
        if k in CASTS:
            ck = e.get('castKind')
            if ck in ('NoOp', 'ConstructorConversion', 'UserDefinedConversion', 'LValueToRValue'):
                if self.is_glvalue(e) or ck == 'NoOp' and self.is_glvalue(e['inner'][-1]):
                    return self.addr(e['inner'][-1])
                return '&' + self.materialize(e)
            if ck in ('DerivedToBase', 'UncheckedDerivedToBase', 'BaseToDerived') and self.is_glvalue(e):
                return self.base_cast_ptr(e, self.addr(e['inner'][-1]))
        if not self.is_glvalue(e) and k not in ('StringLiteral',):
            return '&' + self.materialize(e)
        if k == 'DeclRefExpr':
            rd = e['referencedDecl']
            if rd['id'] in self.caps:
                fld, byref = self.caps[rd['id']]
                return 'self->%s' % fld if byref else '&self->%s' % fld
            if rd['id'] in self.refs: return self.vname(rd)
            if rd.get('kind') == 'FunctionDecl': return self.L.need_fn(rd['id'])
            return '&' + self.lv(e)
        if k == 'UnaryOperator' and e['opcode'] == '*':
            return self.rv(e['inner'][0])
        if k in CALLS:
            txt, isptr = self.call(e)
            if isptr: return txt
            self.unsupported('address of call result by value')
        x = self.lv(e)
        m = re.match(r'^\(\*(.*)\)$', x)
        if m and self.balanced(m.group(1)): return m.group(1)
        return '&' + x

    @staticmethod
    def balanced(s):
        d = 0
        for ch in s:
            if ch == '(': d += 1
            elif ch == ')':
                d -= 1
                if d < 0: return False
        return d == 0

    def vname(self, rd):
        if rd['id'] in self.dead_vars: self.unsupported('run-time use of the compile-time-only constexpr local %s' % rd.get('name'))
        d = self.idx.by_id.get(rd['id'])
        if d is not None and d.get('_vp_name'): return d['_vp_name']
        return self.renames.get(rd['id'], rd.get('name') or ('_p' + rd['id'][-5:]))

    def lv(self, e):
        """C lvalue expression for glvalue e"""
        self.note(e)
        L = self.L
        k = e.get('kind')
        if k in WRAPPERS or k == 'SubstNonTypeTemplateParmExpr': return self.lv(e['inner'][-1])
        if k == 'MaterializeTemporaryExpr':
            return self.materialize(e['inner'][0], L.deref_t(e['type']))
        if k == 'DeclRefExpr':
            rd = e['referencedDecl']
            if rd.get('kind') in ('VarDecl', 'ParmVarDecl', 'BindingDecl'):
                if rd['id'] in self.caps:
                    fld, byref = self.caps[rd['id']]
                    return '(*self->%s)' % fld if byref else 'self->%s' % fld
                if rd['id'] in self.refs: return '(*%s)' % self.vname(rd)
                if rd['id'] not in self.idx.by_id and rd.get('kind') == 'VarDecl':
                    g = 'vpg_' + sanitize(rd.get('name'))          # variable of the standard library: model constant/global
                    L.stubs.setdefault(g, 'extern %s %s' % (L.ctype(e['type']), g))
                    L.stats['externals'].add(g)
                    return g
                d = self.idx.by_id.get(rd['id'])
                if d is not None and d.get('kind') == 'VarDecl' and d.get('storageClass') == 'static' and rd['id'] not in self.renames and (self.idx.parent.get(rd['id']) or {}).get('kind') in REC_KINDS:
                    self.unsupported('static data member %s' % rd.get('name'))
                par = (self.idx.parent.get(rd['id']) or {}) if d is not None else {}
                if d is not None and d.get('kind') == 'VarDecl' and par.get('kind') in ('NamespaceDecl', 'TranslationUnitDecl', None) and rd['id'] not in self.renames:
                    # namespace-scope object of the library (e.g. the wildcard `_`): a zero-initialised global, only for objects without state
                    t = L.deref_t(d['type'])
                    def stateless(r):
                        return not self.idx.fields(r) and not self.idx.is_polymorphic(r) and all(br is not None and stateless(br) for b, br in self.idx.bases(r))
                    if not (t[0] == 'rec' and stateless(t[1])): self.unsupported('namespace-scope variable %s with state' % rd.get('name'))
                    g = 'vpn_' + sanitize(rd.get('name') or 'anon') + '_' + L.need_rec(t[1])
                    if g not in L.aux_structs:
                        L.aux_structs[g] = ('global',)
                        L.rec_defs.append('struct %s %s; /* namespace-scope object %s */' % (L.need_rec(t[1]), g, rd.get('name')))
                    return g
                return self.vname(rd)
            self.unsupported('lvalue reference to ' + str(rd.get('kind')))
        if k == 'MemberExpr':
            fld = self.idx.by_id.get(e['referencedMemberDecl'])
            if fld is None and e.get('name') in ('first', 'second'):
                bt = L.deref_t(e['inner'][0]['type'])
                if e.get('isArrow') and bt[0] == 'ptr': bt = L.deref_t(bt[1])
                if bt[0] == 'pair':
                    b = self.rv(e['inner'][0]) if e.get('isArrow') else self.addr(e['inner'][0])
                    s = '(%s)->%s' % (b, e['name'])
                    if L.tparse(bt[1][0 if e['name'] == 'first' else 1])[0] == 'ref': s = '(*%s)' % s
                    return s
            if fld is None or fld['kind'] != 'FieldDecl':
                self.unsupported('member ' + str(fld.get('kind') if fld else e.get('name')))
            base = e['inner'][0]
            rec = self.idx.parent[fld['id']]
            if e.get('isArrow'): b = self.rv(base)
            else: b = self.addr(base)
            s = '((struct %s *)%s)->%s' % (L.need_rec(rec), b, fld['name'])
            if L.is_ref(fld['type']): s = '(*%s)' % s
            return s
        if k == 'UnaryOperator':
            op = e['opcode']
            if op == '*': return '(*%s)' % self.rv(e['inner'][0])
            if op in ('++', '--') and not e.get('isPostfix'):
                x = self.lv(e['inner'][0]); self.emit('%s%s;' % (op, x)); return x
            if op == '__extension__': return self.lv(e['inner'][0])
        if k == 'ArraySubscriptExpr':
            a, i = self.operands([('rv', e['inner'][0]), ('rv', e['inner'][1])])
            return '%s[%s]' % (a, i)
        if k in CASTS:
            ck = e.get('castKind')
            if ck in ('NoOp', 'ConstructorConversion', 'UserDefinedConversion'): return self.lv(e['inner'][-1])
            if ck in ('DerivedToBase', 'UncheckedDerivedToBase', 'BaseToDerived'):
                return '(*%s)' % self.base_cast_ptr(e, self.addr(e['inner'][-1]))
        if k in CALLS:
            txt, isptr = self.call(e)
            if isptr: return '(*%s)' % txt
            self.unsupported('call result by value used as lvalue')
        if k == 'BinaryOperator' and e.get('opcode') == ',':
            self.expr_stmt(e['inner'][0])          # (a, b) as an lvalue: a for its effects, then the object b designates
            return self.lv(e['inner'][1])
        if k == 'BinaryOperator' and e.get('opcode') in ('=',) or k == 'CompoundAssignOperator':
            lhs, rhs = self.assign_parts(e)
            self.emit('%s %s %s;' % (lhs, e['opcode'], rhs))
            return lhs
        if k == 'ConditionalOperator':
            c = self.rv(e['inner'][0])
            (b1, x1), (b2, x2) = self.capture(lambda: self.addr(e['inner'][1])), self.capture(lambda: self.addr(e['inner'][2]))
            if not b1 and not b2: return '(*(%s ? %s : %s))' % (c, x1, x2)
            t = self.tmp(); self.emit('%s * %s;' % (L.ctype_of(L.deref_t(e['type'])), t))
            self.emit('if (%s) {' % c); self.lines += ['  ' + l for l in b1]; self.emit('  %s = %s; } else {' % (t, x1)); self.lines += ['  ' + l for l in b2]; self.emit('  %s = %s; }' % (t, x2))
            return '(*%s)' % t
        if k == 'StringLiteral': return e['value']
        if k == 'CXXThisExpr': return 'self'
        if k == 'CXXTypeidExpr': return 'vp_typeid_obj'
        self.unsupported('lvalue kind %s' % k)

    def assign_parts(self, e):
        L = self.L
        lt = L.deref_t(e['inner'][0]['type'])
        rhs_e = e['inner'][1]
        lhs, rhs = self.operands([('lv', e['inner'][0]), ('rv', rhs_e)])
        return lhs, rhs

    def rv(self, e):
        """C rvalue expression for e (prelude statements may be emitted)"""
        self.note(e)
        L = self.L
        k = e.get('kind')
        if k in WRAPPERS: return self.rv(e['inner'][0]) if k != 'ParenExpr' else '(%s)' % self.rv(e['inner'][0])
        if k == 'SubstNonTypeTemplateParmExpr': return self.rv(e['inner'][-1])
        if k == 'MaterializeTemporaryExpr': return self.rv(e['inner'][0])
        if k in CASTS:
            ck = e.get('castKind')
            x = e['inner'][-1]
            if ck == 'LValueToRValue': return self.lv(x)
            if ck in ('NoOp', 'ConstructorConversion', 'UserDefinedConversion'):
                if self.is_glvalue(e): return self.lv(e)
                if k == 'CXXConstCastExpr' or ck == 'NoOp' and L.tinfo(e['type'])[0] == 'ptr':
                    return '((%s)%s)' % (L.ctype(e['type']), self.rv(x))
                return self.rv(x)
            if ck == 'ArrayToPointerDecay':
                x0 = self.strip_casts(x)
                if x0.get('kind') in ('StringLiteral', 'MemberExpr'): return self.lv(x)     # literals and array FIELDS are native C arrays
                return '(%s).a' % self.lv(x)                                                  # other array objects are wrapped (struct vp_carr_*)
            if ck == 'FunctionToPointerDecay': return self.addr(x)
            if ck == 'NullToPointer': return '((%s)0)' % L.ctype(e['type'])
            if ck in ('IntegralCast', 'IntegralToBoolean', 'PointerToBoolean', 'BitCast', 'IntegralToPointer', 'PointerToIntegral', 'BooleanToSignedIntegral', 'IntegralToFloating', 'FloatingToIntegral'):
                if ck == 'PointerToBoolean': return '(%s != 0)' % self.rv(x)
                if ck == 'IntegralToBoolean': return '(%s != 0)' % self.rv(x)
                return '((%s)%s)' % (L.ctype(e['type']), self.rv(x))
            if ck == 'ToVoid':
                self.expr_stmt(x); return ''
            if ck in ('DerivedToBase', 'UncheckedDerivedToBase', 'BaseToDerived'):
                if self.is_glvalue(e): return self.lv(e)
                t = L.tinfo(e['type'])
                if t[0] == 'ptr': return self.base_cast_ptr(e, self.rv(x))
                return '(*%s)' % self.base_cast_ptr(e, self.addr(x))
            self.unsupported('cast ' + str(ck))
        if k == 'InitListExpr':
            t = L.deref_t(e['type'])
            if len(e.get('inner', [])) == 1 and t[0] in ('builtin', 'ptr'): return self.rv(e['inner'][0])
            if not e.get('inner') and t[0] in ('builtin', 'ptr'): return '0'
            return self.materialize(e, t)
        if k == 'IntegerLiteral':
            t = L.ctype(e['type'])
            return e['value'] + ('U' if 'unsigned' in t else '') + ('L' if 'long' in t else '')
        if k == 'CharacterLiteral': return str(e['value'])
        if k == 'CXXBoolLiteralExpr': return '1' if e['value'] else '0'
        if k == 'CXXNullPtrLiteralExpr': return '((void *)0)'
        if k == 'StringLiteral': return e['value']
        if k in ('CXXScalarValueInitExpr', 'ImplicitValueInitExpr'):
            t = L.deref_t(e['type'])
            if t[0] in ('builtin', 'ptr'): return '0'
            return self.materialize(e, t)
        if k == 'CXXThisExpr': return 'self'
        if k == 'CXXNoexceptExpr': return '1' if e.get('value') else '0'
        if k == 'SizeOfPackExpr':
            # the size of a pack in this instantiation: the pack-kind TemplateArgument of the function (or of its class)
            packs = []
            n = self.fn
            while n is not None and not packs:
                for a in n.get('inner', []):
                    if a.get('kind') == 'TemplateArgument' and ('inner' in a and all(x.get('kind') == 'TemplateArgument' for x in a['inner']) and not ('type' in a or 'value' in a)):
                        packs.append(len(a['inner']))
                n = self.idx.parent.get(n['id']) if n.get('id') in self.idx.parent else None
                if n is not None and n.get('kind') not in ('FunctionTemplateDecl', 'ClassTemplateSpecializationDecl', 'CXXRecordDecl'): break
            if len(packs) == 1: return '%dUL' % packs[0]
            ps = [c for c in self.fn.get('inner', []) if c.get('kind') == 'ParmVarDecl' and c.get('name') == e.get('name')]
            if ps: return '%dUL' % len(ps)
            self.unsupported('sizeof...(%s): pack size not determined' % e.get('name'))
        if k == 'UnaryExprOrTypeTraitExpr':
            if e.get('name') == 'sizeof' and 'argType' in e: return 'sizeof(%s)' % L.ctype(e['argType'])
            self.unsupported('trait ' + str(e.get('name')))
        if k == 'DeclRefExpr':
            rd = e['referencedDecl']
            if rd.get('kind') == 'EnumConstantDecl':
                en = self.idx.parent.get(rd['id'])
                if en is None: self.unsupported('enum constant ' + rd.get('name'))
                names = [c.get('name') for c in en.get('inner', []) if c.get('kind') == 'EnumConstantDecl']
                return '%d /* %s */' % (names.index(rd['name']), rd['name'])
            if rd.get('kind') in ('FunctionDecl', 'CXXMethodDecl'): return self.addr(e)
            if rd.get('kind') == 'NonTypeTemplateParmDecl': self.unsupported('unsubstituted template parameter')
            return self.lv(e)
        if k in ('MemberExpr', 'ArraySubscriptExpr'): return self.lv(e)
        if k == 'UnaryOperator':
            op = e['opcode']; x = e['inner'][0]
            if op == '&': return self.addr(x)
            if op == '*': return self.lv(e)
            if op in ('++', '--'):
                l = self.lv(x)
                return '(%s%s)' % (l, op) if e.get('isPostfix') else '(%s%s)' % (op, l)
            if op == '__extension__': return self.rv(x)
            return '(%s%s)' % (op, self.rv(x))
        if k == 'BinaryOperator':
            op = e['opcode']
            if op == ',':
                self.expr_stmt(e['inner'][0]); return self.rv(e['inner'][1])
            if op == '=':
                lt = L.deref_t(e['inner'][0]['type'])
                lhs, rhs = self.assign_parts(e)
                return '(%s = %s)' % (lhs, rhs)
            if op in ('&&', '||'):
                a = self.rv(e['inner'][0])
                buf, b = self.capture(lambda: self.rv(e['inner'][1]))
                if not buf: return '(%s %s %s)' % (a, op, b)
                t = self.tmp()
                self.emit('_Bool %s = %s;' % (t, a))
                self.emit('if (%s%s) {' % ('' if op == '&&' else '!', t))
                self.lines += ['  ' + l for l in buf]
                self.emit('  %s = %s;' % (t, b)); self.emit('}')
                return t
            a, b = self.operands([('rv', e['inner'][0]), ('rv', e['inner'][1])])
            return '(%s %s %s)' % (a, op, b)
        if k == 'CompoundAssignOperator':
            lhs, rhs = self.assign_parts(e)
            return '(%s %s %s)' % (lhs, e['opcode'], rhs)
        if k == 'ConditionalOperator':
            c = self.rv(e['inner'][0])
            (b1, x1), (b2, x2) = self.capture(lambda: self.rv(e['inner'][1])), self.capture(lambda: self.rv(e['inner'][2]))
            if not b1 and not b2: return '(%s ? %s : %s)' % (c, x1, x2)
            t = self.tmp(); self.emit('%s %s;' % (L.ctype(e['type']), t))
            self.emit('if (%s) {' % c); self.lines += ['  ' + l for l in b1]; self.emit('  %s = %s; } else {' % (t, x1)); self.lines += ['  ' + l for l in b2]; self.emit('  %s = %s; }' % (t, x2))
            return t
        if k in CALLS:
            txt, isptr = self.call(e)
            return '(*%s)' % txt if isptr else txt
        if k in ('CXXConstructExpr', 'CXXTemporaryObjectExpr'):
            t = L.deref_t(e['type'])
            args = e.get('inner', [])
            if t[0] in ('builtin', 'ptr') and len(args) == 1: return self.rv(args[0])
            if t[0] == 'model' and not t[1].startswith('struct') and len(args) <= 1:
                return self.rv(args[0]) if args else '0'       # e.g. std::atomic<bool>{false} -> _Bool
            if (e.get('elidable') or self.is_copy_or_move_ctor(e['ctorType']['qualType'], qt(e['type']))) and len(args) == 1:
                if t[0] == 'uptr' and self.is_glvalue(args[0]) and not e.get('elidable'):
                    return self.materialize(e, t)     # unique_ptr move construction: the source is left null
                if t[0] != 'rec' or self.trivial_copy(t[1]) or e.get('elidable'):
                    a = args[0]
                    return self.lv(a) if self.is_glvalue(a) else self.rv(a)
            return self.materialize(e, t)
        if k == 'CXXNewExpr':
            if e.get('isPlacement') or e.get('isArray'): self.unsupported('placement/array new')
            # the allocated type: taken from the construct expression where clang gives its desugared type (the type of the
            # new-expression itself may be spelled with a local alias)
            ce = e['inner'][-1] if e.get('inner') else None
            if ce is not None and ce.get('kind') in ('CXXConstructExpr', 'CXXTemporaryObjectExpr') and isinstance(ce.get('type'), dict) and ce['type'].get('desugaredQualType'):
                pt = L.tparse(ce['type']['desugaredQualType'])
            else:
                t = L.tinfo(e['type'])
                pt = L.tparse(t[1])
            while pt[0] == 'alias': pt = L.tparse(pt[1])
            ct = L.ctype_of(pt)
            p = self.tmp('_new')
            self.emit('%s * %s = (%s *)malloc(sizeof(%s));' % (ct, p, ct, ct))
            if e.get('inner'): self.construct_into(p, e['inner'][-1], pt)
            return p
        if k == 'CXXDeleteExpr':
            x = e['inner'][0]
            t = L.deref_t(x['type'])
            self.emit('%s(%s);' % (L.need_deleter(t[1]), self.rv(x)))
            return ''
        if k == 'CXXThrowExpr':
            self.throw(e); return ''
        if k == 'CXXStdInitializerListExpr':
            # std::initializer_list<T>{e1, e2, ...}: the elements are evaluated in order; the list object
            # itself is only ever passed to trompeloeil::ignore(), so it is an opaque token
            arr = self.strip(e['inner'][0])
            if arr.get('kind') != 'InitListExpr': self.unsupported('initializer_list backing array')
            for it in arr.get('inner', []):
                x = self.rv(it)
                if x and not SIMPLE_RE.match(x): self.emit('(void)%s;' % x)
            t = self.tmp(); self.emit('struct vp_initlist %s = {0};' % t)
            return t
        if k == 'CXXDefaultArgExpr': self.unsupported('default argument expression')
        if k == 'LambdaExpr':
            rec = e['inner'][0]
            rec = self.idx.by_id.get(rec['id'], rec)
            inits = [c for c in e['inner'][1:] if c.get('kind') != 'CompoundStmt']
            flds = self.idx.fields(rec)
            if len(flds) != len(inits): self.unsupported('lambda captures (%d fields, %d initialisers)' % (len(flds), len(inits)))
            cname = L.need_rec(rec)
            t = self.tmp('_lam'); self.emit('struct %s %s;' % (cname, t))
            caps = {}
            for fk, (f, ini) in enumerate(zip(flds, inits)):
                fn_ = f.get('name') or ('_c%d' % fk)
                byref = L.is_ref(f['type'])
                i0 = self.capture_source(ini)
                if i0.get('kind') != 'DeclRefExpr': self.unsupported('lambda init-capture')
                caps[i0['referencedDecl']['id']] = (fn_, byref)
                self.emit('%s.%s = %s;' % (t, fn_, self.addr(i0) if byref else self.rv(ini)))
            L.lambda_caps[rec['id']] = caps
            return t
        if k == 'CXXTypeidExpr': self.unsupported('typeid')
        self.unsupported('expr kind %s' % k)
