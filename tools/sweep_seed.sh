#!/bin/bash
# sweep_seed.sh <seed-id> <prop>... : PRE-SCREEN a seeded change on a scratch worktree (VP_REPO), never on /repo.
# (the recorded run in seeded/<id>/meta.json is done on /repo itself by tools/run_seed_on_repo.sh)
ID=$1; shift
WT=/tmp/seedrun_$ID; rm -rf $WT $WT.cache; git -C /repo worktree prune
git -C /repo worktree add -q --detach $WT HEAD || exit 2
git -C $WT apply /verif/seeded/$ID/patch.diff || { echo "patch failed"; exit 2; }
cd /verif
for P in "$@"; do
  VP_REPO=$WT VP_CACHE=$WT.cache VP_JOBS=${VP_JOBS:-8} ./check $P 2>&1 | grep -v "^WARNING" | grep "VIOLATION\|also refuted\|UNDECIDED\|tier=" | cut -c1-260 | sed "s/^/[$ID $P] /"
done
git -C /repo worktree remove --force $WT; rm -rf $WT.cache
