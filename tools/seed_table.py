#!/usr/bin/env python3
"""seed_table.py - regenerate seeded/*/meta.json (tools/seed_meta.py) and replace the table of DESIGN.md section 17 with its output."""
import os, re, subprocess, sys
HERE = os.path.dirname(os.path.dirname(os.path.abspath(__file__)))
out = subprocess.run([sys.executable, os.path.join(HERE, 'tools', 'seed_meta.py')], capture_output=True, text=True, check=True).stdout.strip()
p = os.path.join(HERE, 'DESIGN.md'); s = open(p).read()
i = s.index('| seed | property | change | needs |')
s = s[:i] + out + '\n'
open(p, 'w').write(s)
print('section 17: %d rows' % (out.count('\n') - 1))
