#!/usr/bin/env python3
"""outline.py - outline the (single, top-level) loop of a LOWERED function into init / one-iteration / exit functions
over an explicit state struct, so that an inductive invariant can be discharged as DFCC function contracts
(CBMC's own loop contracts cannot handle `i = i->next` loops, DESIGN.md 3.3).

Purely textual and mechanical on the regular output of cxx2c:
    T f(params) { T _vp_retdummy; <init: declarations>  while (1) { <iteration> }  <exit> }
becomes
    struct f_st { params; locals declared before the loop; _Bool vp_returned, vp_exited; T vp_retval; };
    void f__init(struct f_st *s)   the code before the loop (declarations -> assignments to s->x)
    void f__iter(struct f_st *s)   one iteration: `break` at loop level -> vp_exited, `return e` -> vp_returned/vp_retval
    void f__exit(struct f_st *s)   the code after the loop
The original function is left in place.  Anything unexpected raises Break (exit 2)."""
import re, sys

class Break(Exception): pass

DECL = re.compile(r'^(\s*)((?:struct\s+\w+|unsigned\s+(?:int|long|char)|_Bool|int|long|char|unsigned)(?:\s*\*)*)\s+(\w+)(\s*=\s*(.*))?;\s*$')

def outline(c_text, cname, short):
    m = re.search(r'^([^\n;{}]*\b%s\(([^\n]*)\))\n\{\n(.*?)^\}\n' % re.escape(cname), c_text, re.M | re.S)
    if not m: raise Break('function %s not found' % cname)
    sig, params, body = m.group(1), m.group(2), m.group(3)
    rett = sig.split(cname)[0].strip()
    lines = body.split('\n')
    loops = [i for i, l in enumerate(lines) if re.match(r'^\s*while \(1\) \{', l)]
    if not loops: raise Break('no loop in %s' % cname)
    start = loops[0]
    indent = len(lines[start]) - len(lines[start].lstrip())
    end = None
    for j in range(start + 1, len(lines)):
        if lines[j].startswith(' ' * indent + '}') and len(lines[j]) - len(lines[j].lstrip()) == indent: end = j; break
    if end is None: raise Break('loop end not found in %s' % cname)
    if any(i > end for i in loops): raise Break('%s has more than one loop' % cname)
    init, it, ex = lines[:start], lines[start + 1:end], lines[end + 1:]
    # state: parameters and the locals declared before the loop
    fields = []
    for p in [x.strip() for x in params.split(',') if x.strip() and x.strip() != 'void']:
        pm = re.match(r'^(.*?)(\w+)$', p)
        fields.append((pm.group(1).strip(), pm.group(2)))
    init_out = []
    for l in init:
        d = DECL.match(l)
        if d:
            if d.group(3) == '_vp_retdummy': continue
            fields.append((d.group(2).strip(), d.group(3)))
            if d.group(5) is not None: init_out.append('%s%s = %s;' % (d.group(1), d.group(3), d.group(5)))
        else:
            init_out.append(l)
    names = [n for t, n in fields]
    def subst(l):
        for n in names:
            l = re.sub(r'(?<![\w>.])%s\b(?!\s*\()' % re.escape(n), 's->' + n, l)
        return l
    def rewrite(ls, in_loop):
        out = []
        for l in ls:
            l2 = subst(l)
            l2 = re.sub(r'\breturn _vp_retdummy;', '{ s->vp_returned = 1; return; }', l2)
            l2 = re.sub(r'\breturn ([^;]+);', r'{ s->vp_returned = 1; s->vp_retval = \1; return; }', l2)
            l2 = re.sub(r'(?<![\w{] )\breturn;', '{ s->vp_returned = 1; return; }', l2) if 'vp_returned = 1; ' not in l2 else l2
            if in_loop: l2 = re.sub(r'\bbreak;', '{ s->vp_exited = 1; return; }', l2)
            out.append(l2)
        return out
    # braces opened before the loop and closed after it must be balanced inside each part
    def balance(ls):
        depth = sum(l.count('{') - l.count('}') for l in ls)
        return depth
    init_r = rewrite(init_out, False); it_r = rewrite(it, True); ex_r = rewrite(ex, False)
    opened = balance(init_r)
    init_r += ['}'] * max(opened, 0)
    ex_r = ['{'] * max(-balance(ex_r), 0) + ex_r
    st = 'struct %s_st {\n%s\n  _Bool vp_returned; _Bool vp_exited;%s\n};' % (short, '\n'.join('  %s %s;' % f for f in fields), '' if rett == 'void' else ' %s vp_retval;' % rett)
    out = [st,
           'void %s__init(struct %s_st *s)\n%s__INIT_CONTRACT\n{\n%s\n}' % (short, short, short.upper(), '\n'.join(init_r)),
           'void %s__iter(struct %s_st *s)\n%s__ITER_CONTRACT\n{\n%s\n}' % (short, short, short.upper(), '\n'.join(it_r)),
           'void %s__exit(struct %s_st *s)\n%s__EXIT_CONTRACT\n{\n%s\n}' % (short, short, short.upper(), '\n'.join(ex_r))]
    return '\n\n'.join(out) + '\n'

if __name__ == '__main__':
    print(outline(open(sys.argv[1]).read(), sys.argv[2], sys.argv[3]))
