"""c19_oracle.py - documented legality condition behind each compile-time diagnostic, written from the property text
(C19) and docs/reference.md over the abstract clause type-state of tools/guards.py (NOT copied from the code):
   throws/side_effects/sequence_set/call_limit_set/has_return/has_co_return: which clauses the expectation already has
   upper: its upper call limit (0 = forbidden); L,H: the bounds being given to TIMES; b: "IN_SEQUENCE already given"
   is_coroutine/void_sig: the mocked signature; the remaining booleans: type traits of the RETURN expression."""
_PTR_MISMATCH = '(S.ptr_ret && S.ptr_sigret && !S.const_pointee_sigret && S.const_pointee_ret)'
_REF_VALUE = '(!S.ref_ret && S.ref_sigret)'
_REF_MISMATCH = '(S.ref_ret && S.ref_sigret && !S.const_referee_sigret && S.const_referee_ret)'
ORACLE = {
 'times': {
   'Only one TIMES call limit is allowed, but it can express an interval': '!S.call_limit_set',
   'In TIMES the first value must not exceed the second': 'S.L <= S.H',
   'THROW and TIMES(0) does not make sense': 'S.H != 0 || !S.throws',
   'RETURN and TIMES(0) does not make sense': 'S.H != 0 || !S.has_return',
   'SIDE_EFFECT and TIMES(0) does not make sense': 'S.H != 0 || !S.side_effects',
   'IN_SEQUENCE and TIMES(0) does not make sense': 'S.H != 0 || !S.sequence_set',
 },
 'runtime_times': {'Only one RT_TIMES call limit is allowed, but it can express an interval': '!S.call_limit_set'},
 'in_sequence': {
   'Multiple IN_SEQUENCE does not make sense. You can list several sequence objects at once': '!S.b',
   'IN_SEQUENCE for forbidden call does not make sense': 'S.upper != 0',
 },
 'sideeffect': {'SIDE_EFFECT for forbidden call does not make sense': 'S.upper != 0'},
 'handle_return': {
   'RETURN and CO_RETURN cannot be combined': '!S.has_co_return',
   'Do not use RETURN from a coroutine, use CO_RETURN': '!S.is_coroutine',
   'RETURN does not make sense for void-function': 'S.is_coroutine || !S.void_sig || S.constructible',
   'RETURN illegal argument': 'S.is_coroutine || !S.illegal_type',
   'RETURN const* from function returning pointer to non-const': 'S.is_coroutine || !' + _PTR_MISMATCH,
   'RETURN non-reference from function returning reference': 'S.is_coroutine || !' + _REF_VALUE + ' || S.constructible',
   'RETURN const& from function returning non-const reference': 'S.is_coroutine || ' + _REF_VALUE + ' || !' + _REF_MISMATCH,
   'RETURN value is not convertible to the return type of the function': 'S.is_coroutine || S.constructible || S.void_sig || S.illegal_type || ' + _PTR_MISMATCH + ' || ' + _REF_MISMATCH,
   'Multiple RETURN does not make sense': 'S.is_coroutine || !S.has_return',
   'THROW and RETURN does not make sense': 'S.is_coroutine || !S.throws || S.upper == 0',
   'RETURN for forbidden call does not make sense': 'S.is_coroutine || S.upper != 0',
 },
 'handle_throw': {
   'Do not use THROW from a coroutine, use CO_THROW': '!S.is_coroutine',
   'Multiple THROW does not make sense': 'S.is_coroutine || !S.throws',
   'THROW and RETURN does not make sense': '!S.has_return',
   'THROW for forbidden call does not make sense': 'S.is_coroutine || S.upper != 0',
 },
 'make_expectation': {
   'RETURN missing for non-void function': 'S.is_coroutine || S.ret_is_sigret || S.coret_is_sigret || S.upper == 0 || S.throws',
   'CO_RETURN missing for coroutine': '!S.is_coroutine || S.ret_is_sigret || S.coret_is_sigret || S.upper == 0 || S.throws',
 },
 'monitor_in_sequence': {'Multiple IN_SEQUENCE does not make sense. You can list several sequence objects at once': '!S.b'},
}
