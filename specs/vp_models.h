/* vp_models.h - trusted C models of the std:: pieces the lowered code touches, the ghost
 * exception state and the ghost logs (DESIGN.md 2.1, 5.3, 6).  Everything in this file is part
 * of the TRUSTED BASE and is listed as such in every evidence file.
 *
 * Include order in a harness:
 *     #include "vp_models.h"      (types + ghost state)
 *     #include "<unit>.h"         (generated: structs, prototypes, aliases)
 *     #include "vp_models_impl.h" (bodies of the vpx_ stubs; needs the generated prototypes)
 *     #include "<unit>.c"         (generated: the lowered real functions, contracts spliced)
 */
#ifndef VP_MODELS_H
#define VP_MODELS_H
#include <stddef.h>

/* ---------------------------------------------------------------- exceptions */
enum { VP_EXC_NONE = 0, VP_EXC_VIOLATION = 1, VP_EXC_LOGIC_ERROR = 2, VP_EXC_USER_STD = 3, VP_EXC_USER_OTHER = 4, VP_EXC_OTHER = 5 };
#define VP_EXC_IS_STD(x) ((x) == VP_EXC_VIOLATION || (x) == VP_EXC_LOGIC_ERROR || (x) == VP_EXC_USER_STD)
int vp_exc;            /* exception in flight (0 = none) */
int vp_cur;            /* exception currently being handled (for `throw;`) */
int vp_terminated;     /* std::terminate / std::abort reached */
int vp_unwinding;      /* > 0 while destructors run because an exception is propagating (std::uncaught_exception()) */

/* ------------------------------------------------------------------- tokens */
#ifndef VP_TOK_CAP
#define VP_TOK_CAP 12
#endif
enum { VP_T_CSTR = 1, VP_T_CHAR, VP_T_ULONG, VP_T_INT, VP_T_UINT, VP_T_PTR, VP_T_SETW, VP_T_STRING_OPAQUE, VP_T_BYTE, VP_T_BOOL };
#ifdef VP_TOK_FMT   /* value + the stream's flags/width/fill when it was inserted (C18 obligations only: it triples the token size) */
struct vp_tok { int kind; unsigned long v; const void *p; int fl; long w; char fi; };
#else
struct vp_tok { int kind; unsigned long v; const void *p; };
#endif
struct vp_string { int n; int overflow; int nlit; const char *lit; /* last string literal of the library text streamed in */ struct vp_tok t[VP_TOK_CAP]; };
struct vp_os { int n; int overflow; int nlit; const char *lit; struct vp_tok t[VP_TOK_CAP]; int flags; long width; char fill; };
struct vp_setw { int w; };
struct vp_setfill { char c; };
enum { VP_MANIP_hex = 1, VP_MANIP_dec, VP_MANIP_oct, VP_MANIP_left, VP_MANIP_right, VP_MANIP_internal };
struct vp_lock { int held; };
struct vp_function { int id; };
struct vp_shared_ptr { void *p; };
struct vp_empty { char _e; };
struct vp_initlist { char _e; };
struct vp_stdexc { int kind; };
struct vp_typeinfo { int id; };
struct vp_regex { int id; };
struct vp_memfn { int id; };
struct vp_typeinfo vp_typeid_obj;
struct vp_stdexc vp_stdexc_obj;

/* std::ios_base::fmtflags constants (libstdc++ values; only their distinctness matters) */
int vpg_dec = 2, vpg_left = 32, vpg_hex = 8, vpg_oct = 64, vpg_right = 128, vpg_internal = 16, vpg_basefield = 74, vpg_adjustfield = 176;

int vp_lock_depth;     /* ghost: recursion depth of the global recursive mutex */
int vp_lock_max;

/* ------------------------------------------------------------------ logs */
#ifndef VP_LOG_CAP
#define VP_LOG_CAP 6
#endif
struct vp_report { int fn; int sev; const char *file; unsigned long line; int lock_depth; struct vp_string msg; };
struct vp_report vp_rep[VP_LOG_CAP]; int vp_rep_n;
struct vp_okrep { int fn; const char *msg; };
struct vp_okrep vp_ok[VP_LOG_CAP]; int vp_ok_n;
struct vp_tracerec { const void *tracer; const char *file; unsigned long line; struct vp_string msg; };
struct vp_tracerec vp_tr[VP_LOG_CAP]; int vp_tr_n;
/* events produced by user-supplied clauses (contract-only stubs): kind, owner object, clause object */
enum { VP_EV_ACTION = 1, VP_EV_COND, VP_EV_RET, VP_EV_MATCHES };
struct vp_event { int kind; const void *obj; int result; };
#ifndef VP_EV_CAP
#define VP_EV_CAP 8
#endif
struct vp_event vp_ev[VP_EV_CAP]; int vp_ev_n;

#include <stdlib.h>
/* typed heap objects: CBMC types a dynamic object from the cast at the malloc call site */
#define VP_TAGOF_(x) VP_TAG_##x
#define VP_TAGOF(x) VP_TAGOF_(x)
#define VP_NEW(T) ((T *)malloc(sizeof(T)))
void vp_free(void *p);
void vp_terminate(void);
void vp_bad_dispatch(void);
/* std::function as a tagged closure object / std::vector as a fixed-capacity array (units with erase_functions) */
struct vp_fnobj { int tag; void *obj; };
#ifndef VP_VEC_CAP
#define VP_VEC_CAP 4
#endif
void vp_bad_function_call(void);
#define VP_SAFETY(c, text) __CPROVER_assert(c, "[C14] SAFETY: " text)
#define VP_MODEL_BOUND(c, text) __CPROVER_assert(c, "unwinding assertion (model bound): " text)
void vp_abort(void);
struct vp_stdexc *vp_current_stdexc(void);
#endif
