"""c19_forms.py - C19: expectation forms that must be refused at compile time with the documented message, and legal forms that must
compile (written from docs/reference.md and the property statement; each entry was checked against the pinned tree)."""
ILLEGAL = [
 ('two_times', 'REQUIRE_CALL(m, f(_)).TIMES(1).TIMES(2).RETURN(0);', 'Only one TIMES call limit is allowed'),
 ('two_rt_times', 'REQUIRE_CALL(m, f(_)).RT_TIMES(1).RT_TIMES(2).RETURN(0);', 'Only one RT_TIMES call limit is allowed'),
 ('times_then_rt_times', 'REQUIRE_CALL(m, f(_)).TIMES(1).RT_TIMES(2).RETURN(0);', 'Only one RT_TIMES call limit is allowed'),
 ('times0_then_times', 'REQUIRE_CALL(m, f(_)).TIMES(0).TIMES(2);', 'Only one TIMES call limit is allowed'),
 ('times0_then_rt_times', 'REQUIRE_CALL(m, f(_)).TIMES(0).RT_TIMES(2);', 'Only one RT_TIMES call limit is allowed'),
 ('times_low_above_high', 'REQUIRE_CALL(m, f(_)).TIMES(3, 2).RETURN(0);', 'In TIMES the first value must not exceed the second'),
 ('two_in_sequence', 'REQUIRE_CALL(m, f(_)).IN_SEQUENCE(seq).IN_SEQUENCE(seq2).RETURN(0);', 'Multiple IN_SEQUENCE does not make sense'),
 ('forbidden_in_sequence', 'REQUIRE_CALL(m, f(_)).TIMES(0).IN_SEQUENCE(seq);', 'IN_SEQUENCE for forbidden call does not make sense'),
 ('in_sequence_times0', 'REQUIRE_CALL(m, f(_)).IN_SEQUENCE(seq).TIMES(0);', 'IN_SEQUENCE and TIMES(0) does not make sense'),
 ('forbidden_side_effect', 'REQUIRE_CALL(m, f(_)).TIMES(0).LR_SIDE_EFFECT(n = 1);', 'SIDE_EFFECT for forbidden call does not make sense'),
 ('side_effect_times0', 'REQUIRE_CALL(m, f(_)).LR_SIDE_EFFECT(n = 1).TIMES(0);', 'SIDE_EFFECT and TIMES(0) does not make sense'),
 ('two_returns', 'REQUIRE_CALL(m, f(_)).RETURN(1).RETURN(2);', 'Multiple RETURN does not make sense'),
 ('two_throws', 'REQUIRE_CALL(m, f(_)).THROW(1).THROW(2);', 'Multiple THROW does not make sense'),
 ('throw_then_return', 'REQUIRE_CALL(m, f(_)).THROW(1).RETURN(1);', 'THROW and RETURN does not make sense'),
 ('return_then_throw', 'REQUIRE_CALL(m, f(_)).RETURN(1).THROW(1);', 'THROW and RETURN does not make sense'),
 ('return_missing', 'REQUIRE_CALL(m, f(_));', 'RETURN missing for non-void function'),
 ('return_in_void', 'REQUIRE_CALL(m, v(_)).RETURN(1);', 'RETURN does not make sense for void-function'),
 ('forbidden_return', 'REQUIRE_CALL(m, f(_)).TIMES(0).RETURN(1);', 'RETURN for forbidden call does not make sense'),
 ('return_times0', 'REQUIRE_CALL(m, f(_)).RETURN(1).TIMES(0);', 'RETURN and TIMES(0) does not make sense'),
 ('forbidden_throw', 'REQUIRE_CALL(m, f(_)).TIMES(0).THROW(1);', 'THROW for forbidden call does not make sense'),
 ('throw_times0', 'REQUIRE_CALL(m, f(_)).THROW(1).TIMES(0);', 'THROW and TIMES(0) does not make sense'),
 ('return_value_for_reference', 'REQUIRE_CALL(m, r(_)).RETURN(5);', 'RETURN non-reference from function returning reference'),
 ('return_not_convertible', 'REQUIRE_CALL(m, f(_)).RETURN("x");', 'RETURN value is not convertible to the return type of the function'),
 ('argument_beyond_arity', 'REQUIRE_CALL(m, f(_)).WITH(_2 == 1).RETURN(0);', 'illegal_argument'),
]
LEGAL = [
 ('plain', 'REQUIRE_CALL(m, f(_)).RETURN(1);'),
 ('times', 'REQUIRE_CALL(m, f(_)).TIMES(2).RETURN(1);'),
 ('times_interval', 'REQUIRE_CALL(m, f(_)).TIMES(2, 5).RETURN(1);'),
 ('at_least', 'REQUIRE_CALL(m, f(_)).TIMES(AT_LEAST(1)).RETURN(1);'),
 ('in_sequence_at_most', 'REQUIRE_CALL(m, f(_)).IN_SEQUENCE(seq).TIMES(AT_MOST(3)).RETURN(0);'),
 ('at_most_in_sequence', 'REQUIRE_CALL(m, f(_)).TIMES(AT_MOST(3)).IN_SEQUENCE(seq).RETURN(0);'),
 ('two_sequences', 'REQUIRE_CALL(m, f(_)).IN_SEQUENCE(seq, seq2).RETURN(0);'),
 ('allow', 'ALLOW_CALL(m, f(_)).RETURN(0);'),
 ('forbid', 'FORBID_CALL(m, f(_));'),
 ('times0', 'REQUIRE_CALL(m, f(_)).TIMES(0);'),
 ('void_function', 'REQUIRE_CALL(m, v(_));'),
 ('side_effects_then_return', 'REQUIRE_CALL(m, f(_)).LR_SIDE_EFFECT(n = _1).LR_SIDE_EFFECT(n++).RETURN(1);'),
 ('throw_in_non_void', 'REQUIRE_CALL(m, f(_)).THROW(1);'),
 ('with_and_return_param', 'REQUIRE_CALL(m, f(_)).WITH(_1 > 0).RETURN(_1);'),
 ('reference_return', 'REQUIRE_CALL(m, r(_)).LR_RETURN(_1);'),
 ('rt_times', 'REQUIRE_CALL(m, f(_)).RT_TIMES(1, 2).RETURN(0);'),
 ('rt_times_in_sequence', 'REQUIRE_CALL(m, f(_)).IN_SEQUENCE(seq).RT_TIMES(AT_MOST(2)).RETURN(0);'),
 ('named', 'auto e = NAMED_REQUIRE_CALL(m, f(_)).RETURN(0); (void)e;'),
 ('require_destruction_in_sequence', 'REQUIRE_DESTRUCTION(*d).IN_SEQUENCE(seq);'),
]
HEAD = """#include <trompeloeil.hpp>
struct D { virtual ~D() = default; };
struct M {
  MAKE_MOCK1(f, int(int));
  MAKE_MOCK1(v, void(int));
  MAKE_MOCK1(r, int&(int&));
};
void t(M& m, trompeloeil::sequence& seq, trompeloeil::sequence& seq2, int& n, trompeloeil::deathwatched<D>* d)
{
  using trompeloeil::_;
  (void)n; (void)seq; (void)seq2; (void)d;
  %s
}
"""
