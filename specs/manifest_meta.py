"""per-property MANIFEST text"""
NOTES = ('Contract-based deductive verification with CBMC on C lowered from the real headers on every run (clang JSON AST -> tools/cxx2c*.py). '
         'FC/FC+ obligations are unbounded (loop-free after contract replacement or after fixing the heap shape); BL obligations enumerate heap shapes '
         'up to a stated bound with all scalars symbolic and are reported as bounded stand-ins, never counted as proved. See DESIGN.md.')
_T = 'contract-based deductive verification: postconditions taken from the property text, asserted/enforced by CBMC 6.11 (goto-instrument --dfcc where a function contract is enforced) on C lowered mechanically from the real C++ on every run'
_TB = 'trusted: cxx2c lowering, clang front end, CBMC, std:: models (specs/vp_models*.h), conforming reporter, user clauses as contract-only stubs; single-threaded; instantiations of tools/driver_tu.cpp only'
def _bl(text): return {'category': 'model_checking', 'text': text, 'note': _TB + '; BOUNDED: heap shapes enumerated up to the bound stated in the evidence (expectations <= 3-4, sequences <= 2), all scalars symbolic', 'technique': _T + '; list-walking functions as bounded stand-ins over exhaustively enumerated heap shapes'}
def _pf(text): return {'category': 'proof', 'text': text, 'note': _TB, 'technique': _T}
CLAIMED = {
 'C01': _bl('mock_func with its whole call closure (find, matches, run_actions, report paths) is run by CBMC from every well-formed state of <=3 expectations (thorough 4): accepted iff the C02 candidate exists, is not forbidding and is in sequence; otherwise exactly one fatal report, exception, and a frame condition (no count, list, sequence registration changes; no side effect / return evaluated).'),
 'C02': _bl('find() against the selection rule written from the property text (lowest sequence cost, newest among equals) for every shape of <=3 (4) expectations with free bounds/counts/match results, plus the two-sequence maximum rule; frame of mock_func: only the handler count changes.'),
 'C03': _pf('DFCC function contracts on sequence_handler_base (is_satisfied/is_saturated/is_forbidden/increment_call/set_limits/getters) proved over the full 64-bit domain; handles-exactly-min(n,H), saturation move and queries are bounded stand-ins over enumerated shapes.'),
 'C04': _bl('~call_matcher (complete destructor chain), ~expectations/decommission/mock_destroyed: one non-fatal report iff linked, unreported and below the lower bound; never twice (mock dies first, expectation released later); frame on all other expectations; for every shape of <=3 expectations.'),
 'C05': _bl('mock_func sequence part (eligible iff all pending predecessors satisfied; predecessors retired on every accepted call; rejected call changes nothing) over enumerated shapes; monitored destruction (notify) loop-free obligations: died always, non-fatal report iff ineligible, predecessors retired.'),
 'C06': _bl('sequence_type::is_completed against its specification, ~sequence_type (one non-fatal report iff registrations remain, all removed), expectations leave their sequences on release and saturation; over enumerated shapes.'),
 'C07': _bl('forbidding candidate: exactly one fatal report with its location, marked reported, nothing else changes (so repeated calls behave identically); always satisfied and saturated; never reports at end of life (C04 obligations).'),
 'C08': _bl('action loop and return handler in mock_func over enumerated shapes: side effects once each in list (= declaration) order, then the return handler once, throwing clause stops the rest and still counts; only the handler\'s clauses; trace_return forwards the very object. Clause counts <= 2; value conversions not covered.'),
 'C13': _pf('loop-free obligations through the real constructors/destructors of deathwatched<T> and lifetime_monitor: unexpected destruction, expected destruction (unsequenced / first / behind a predecessor), requirement released first, copy/move/assign. Two requirements on one object is a recorded known finding (F4).'),
 'C14': _bl('every obligation of every property runs with CBMC pointer/bounds checks on heap objects that are freed when destroyed, so any use of a destroyed object is a named failure; ring well-formedness after every operation; destroy-then-continue scenarios. F6 (sequence object destroyed first) and F4 are recorded known findings.'),
 'C15': _bl('severity and location postconditions on every report produced in the C01-C07/C13 obligations: fatal from mock_func paths, non-fatal from destructor paths; destructors never throw (std::terminate obligation); report text listing not yet covered.'),
 'C16': _pf('set_reporter (both forms) and reporter<specialized>::send/sendOk loop-free obligations; exactly one OK report naming the handler on accepted calls and none on rejected calls is asserted in the mock_func obligations (bounded shapes).'),
 'C17': _pf('tracer constructor/destructor nesting, set_tracer, trace_agent (no tracer => nothing; tracer => exactly one record at destruction with location, text, arguments, value / what() / unknown) loop-free; mock_func delivers exactly one record per accepted call to tracer_obj() (bounded shapes). Nesting of tracer lifetimes is a stated precondition.'),
}
_PENDING = 'planned in DESIGN.md; obligations not built yet in this commit - not claimed until they run'
NOT_APPLICABLE = {
 'C09': 'C++ reference binding / lambda capture semantics generated by macros: no function body to put a contract on; CBMC cannot parse the constructs and a C lowering would have to assume the binding semantics to be shown (DESIGN.md section 8)',
 'C12': 'thread schedules: CBMC contracts are sequential, no obligation can quantify over interleavings (DESIGN.md section 8)',
 'C20': 'C++20 coroutines: neither CBMC nor the lowering has coroutine-frame semantics (DESIGN.md section 8)',
}
for p in ['C10', 'C11', 'C18', 'C19']:
    NOT_APPLICABLE.setdefault(p, _PENDING)
