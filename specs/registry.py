"""registry.py - units (what to lower), obligations (what to prove), trusted base, notes."""

TRUSTED_BASE = [
    'cxx2c lowering (tools/cxx2c*.py): clang-14 JSON AST of the instantiated real functions -> C; rules in DESIGN.md 2.1',
    'clang-14 front end (template instantiation, overload resolution, implicit conversions)',
    'CBMC 6.11.0 (goto-cc, goto-instrument --dfcc, SAT back end)',
    'std:: models in specs/vp_models.h, vp_models_impl.h (ostream/string as token logs, unique_lock as depth counter, unique_ptr as owning pointer, std::function call = conforming reporter; in the range-matcher units std::function = tagged closure copy, std::vector = fixed-capacity array, std algorithms = the loops they stand for)',
    'conforming reporter: severity fatal => throws, nonfatal => returns (docs/reference.md)',
    'single-threaded semantics (C12 not claimed); 64-bit size_t; templates verified only at the instantiations of tools/driver_tu.cpp',
    'user clauses (WITH/SIDE_EFFECT/RETURN lambdas) are contract-only stubs that do not re-enter the library',
]
ASSUMPTIONS = {}
NOTES = {}
LEVELS = {'C02': 'proof', 'C03': 'proof', 'C13': 'proof', 'C16': 'proof', 'C17': 'proof'}
DEFAULT_LEVEL = 'model_checking'
UNITS = {}
OBLIGATIONS = []

def ob(**kw):
    kw.setdefault('tier', 'quick')
    OBLIGATIONS.append(kw)

# ----------------------------------------------------------------------------------------------
# unit handler_base: sequence_handler_base scalar state machine (C03, C07)
UNITS['handler_base'] = {'roots': {
    'IS_SATISFIED': '21sequence_handler_base12is_satisfiedEv', 'IS_SATURATED': '21sequence_handler_base12is_saturatedEv',
    'IS_FORBIDDEN': '21sequence_handler_base12is_forbiddenEv', 'INCREMENT_CALL': '21sequence_handler_base14increment_callEv',
    'SET_LIMITS': '21sequence_handler_base10set_limitsEmm', 'GET_MIN_CALLS': '21sequence_handler_base13get_min_callsEv',
    'GET_CALLS': '21sequence_handler_base9get_callsEv'}}
for fn in ('IS_SATISFIED', 'IS_SATURATED', 'IS_FORBIDDEN', 'INCREMENT_CALL', 'SET_LIMITS', 'GET_MIN_CALLS', 'GET_CALLS'):
    ob(name='handler_base.%s.contract' % fn.lower(), kind='FC', props=['C03'] + (['C07'] if fn in ('IS_FORBIDDEN', 'IS_SATISFIED', 'IS_SATURATED') else []),
       unit='handler_base', specs=['handler_base.spec'], contracts=[fn],
       harness='h_handler_base.c', entry='h_' + fn.lower(), enforce=fn)

# ----------------------------------------------------------------------------------------------
# unit world_ii: the whole call closure of one mock function int f(int) (mock_func, find, run_actions,
# report paths, destructors, sequences) - lowered once, used by the h_world.c obligations
_II = 'IFiiE'
UNITS['world_ii'] = {
    'opaque': [' get_lock$', r'8vp_retfncl'],
    'dyn_types': [r'^sequence_handler<[012]>$', r'^call_matcher<int\(int\),std::tuple<wildcard>>$', r'^return_handler_t<int\(int\),vp_vp_retfn>$'],
    'ghost_fields': {r'^condition_base<int\(int\)>$': ['_Bool g_result'], r'^side_effect_base<int\(int\)>$': ['int g_throws'],
                     r'^return_handler<int\(int\)>$': ['int g_throws', 'int g_value']},
    'roots': {
        'MOCK_FUNC': '9mock_funcILb0EFiiEJRiEE', 'FIND': '4findIFiiEE',
        'CM': r'rec:^call_matcher<int\(int\),std::tuple<wildcard>>$', 'CMB': r'rec:^call_matcher_base<int\(int\)>$',
        'SH0': 'rec:^sequence_handler<0>$', 'SH1': 'rec:^sequence_handler<1>$', 'SH2': 'rec:^sequence_handler<2>$',
        'SM': 'rec:^sequence_matcher$', 'ST': 'rec:^sequence_type$', 'EXPS': r'rec:^expectations<false,int\(int\)>$',
        'COND': r'rec:^condition_base<int\(int\)>$', 'SEFF': r'rec:^side_effect_base<int\(int\)>$', 'RETH': r'rec:^return_handler<int\(int\)>$', 'RETHT': r'rec:^return_handler_t<int\(int\),vp_vp_retfn>$', 'RETFN': 'rec:^vp_vp_retfn$',
        'CM_DTOR': r'dtor:^call_matcher<int\(int\),std::tuple<wildcard>>$', 'EXPS_DTOR': r'dtor:^expectations<false,int\(int\)>$',
        'ST_DTOR': 'dtor:^sequence_type$', 'COND_DTOR': r'dtor:^condition_base<int\(int\)>$', 'SEFF_DTOR': r'dtor:^side_effect_base<int\(int\)>$',
        'IS_COMPLETED': '13sequence_type12is_completedEv',
        'CM_IS_SATISFIED': r'12call_matcherIFiiESt5tupleIJNS_8wildcardEEEE12is_satisfiedEv', 'CM_IS_SATURATED': r'12call_matcherIFiiESt5tupleIJNS_8wildcardEEEE12is_saturatedEv',
    },
    'stub_aliases': {
        'VS_COND_CHECK': r'^vs_.*condition_baseIFiiEE5check', 'VS_COND_NAME': r'^vs_.*condition_baseIFiiEE4name', 'VS_ACTION': r'^vs_.*side_effect_baseIFiiEE6action',
        'VS_RET_CALL': r'^vs_.*return_handlerIFiiEE4call', 'RETFN_CALL': r'^f_.*8vp_retfncl', 'VS_TRACE': r'^vs_.*6tracer5trace',
        'VS_DTOR_COND': '^vs_dtor_S_condition_base_int_int$', 'VS_DTOR_SEFF': '^vs_dtor_S_side_effect_base_int_int$', 'VS_DTOR_RETH': '^vs_dtor_S_return_handler_int_int$',
        'VS_CMB_MATCHES': r'^vs_.*call_matcher_baseIFiiEE7matches', 'VS_CMB_COST': r'^vs_.*call_matcher_baseIFiiEE13sequence_cost',
        'VS_CMB_RUN_ACTIONS': r'^vs_.*call_matcher_baseIFiiEE11run_actions', 'VS_CMB_RETURN_VALUE': r'^vs_.*call_matcher_baseIFiiEE12return_value',
        'VS_CMB_REPORT_MISMATCH': r'^vs_.*call_matcher_baseIFiiEE15report_mismatch', 'VS_CMB_REPORT_SIGNATURE': r'^vs_.*call_matcher_baseIFiiEE16report_signature',
        'VS_CMB_MOCK_DESTROYED': r'^vs_.*call_matcher_baseIFiiEE14mock_destroyed',
        'VS_SHB_CAN_BE_CALLED': r'^vs_.*sequence_handler_base13can_be_called', 'VS_SHB_ORDER': r'^vs_.*sequence_handler_base5order',
        'VS_SHB_RETIRE': r'^vs_.*sequence_handler_base6retireEv', 'VS_SHB_RETIRE_PRED': r'^vs_.*sequence_handler_base19retire_predecessors',
        'VS_SHB_VALIDATE': r'^vs_.*sequence_handler_base8validate', 'VS_DTOR_SHB': '^vs_dtor_S_sequence_handler_base$',
    },
}

def shapes_where(n, allowed=(0, 1, 2)):
    """all assignments of expectations 0..n-1 to {active, saturated, detached} as base-3 numbers"""
    out = []
    def rec(i, acc, tag):
        if i == n: out.append((tag, acc)); return
        for w in allowed: rec(i + 1, acc + w * 3 ** i, tag + 'ASD'[w])
    rec(0, 0, '')
    return out

def world_variants(n, kmax, k2=False):
    vs = []
    for tag, w in shapes_where(n):
        if not k2:
            vs.append(('N%d.%s' % (n, tag), {'N': n, 'KMAX': kmax, 'W_WHERE': w}))
        else:
            # two-sequence expectations: K concrete; expectation 0 always has K=2
            for wk in range(3 ** n):
                if wk % 3 != 2: continue
                ktag = ''.join(str((wk // 3 ** i) % 3) for i in range(n))
                vs.append(('N%d.%s.K%s' % (n, tag, ktag), {'N': n, 'KMAX': 2, 'W_WHERE': w, 'W_K': wk}))
    return vs

_BOUND = 'heap shapes enumerated exhaustively: %s; every scalar (bounds, counts, flags, clause results, which handles are still registered) symbolic'
ob(name='world.find.selection_rule', kind='BL', props=['C01', 'C02'], unit='world_ii', harness='h_world.c', entry='w_find',
   variants=world_variants(3, 1), variants_thorough=world_variants(4, 1), unwind=7,
   bound=_BOUND % 'N=3 expectations (thorough 4) x {active,saturated,detached}, <=1 of 2 sequences each, 1 condition each', min_reach=0)
ob(name='world.find.selection_rule.two_sequences', kind='BL', props=['C02'], unit='world_ii', harness='h_world.c', entry='w_find',
   variants=world_variants(2, 2, True), unwind=7, timeout=900,
   bound=_BOUND % 'N=2 expectations, expectation 0 in both sequences, expectation 1 in 0..2', min_reach=0)
ob(name='world.call.mock_func', kind='BL', props=['C01', 'C02', 'C03', 'C05', 'C07', 'C08', 'C14', 'C15', 'C16', 'C17'], unit='world_ii', harness='h_world.c', entry='w_call',
   variants=world_variants(3, 1), variants_thorough=world_variants(4, 1), unwind=10, timeout=1800,
   bound=_BOUND % 'N=3 expectations (thorough 4), <=1 of 2 sequences each, 1 condition and 1 side effect each', min_reach=0)

def with_target(vs, n):
    out = []
    for tag, d in vs:
        for t in range(n):
            dd = dict(d); dd['W_T'] = t
            out.append(('%s.T%d' % (tag, t), dd))
    return out

ob(name='world.dtor.expectation_lifetime_ends', kind='BL', props=['C01', 'C04', 'C06', 'C14', 'C15'], unit='world_ii', harness='h_world.c', entry='w_dtor',
   variants=with_target(world_variants(3, 1), 3), unwind=10, timeout=900,
   bound=_BOUND % 'N=3 expectations x target expectation, <=1 of 2 sequences each', min_reach=0)
ob(name='world.dtor.expectation_lifetime_ends.two_sequences', kind='BL', props=['C04', 'C06', 'C14'], unit='world_ii', harness='h_world.c', entry='w_dtor',
   variants=with_target(world_variants(2, 2, True), 1), unwind=10, timeout=900,
   bound=_BOUND % 'N=2 expectations, target in both sequences', min_reach=0)
ob(name='world.call_then_dtor.rejected_call_then_lifetime_ends', kind='BL', props=['C04', 'C14', 'C15'], unit='world_ii', harness='h_world.c', entry='w_call_then_dtor',
   variants=[v for v in with_target(world_variants(2, 1), 2) if 'A' in v[0].split('.')[1]], unwind=10, timeout=900, bound=_BOUND % 'N=2 expectations (at least one active) x target expectation, <=1 of 2 sequences each; history: one rejected call, then the target is released', min_reach=0)
ob(name='world.mockdtor.mock_dies_first', kind='BL', props=['C04', 'C06', 'C14', 'C15'], unit='world_ii', harness='h_world.c', entry='w_mockdtor',
   variants=world_variants(3, 1), unwind=10, timeout=900, bound=_BOUND % 'N=3 expectations, <=1 of 2 sequences each', min_reach=0)
ob(name='world.seqdtor.sequence_object_dies', kind='BL', props=['C06', 'C14', 'C15'], unit='world_ii', harness='h_world.c', entry='w_seqdtor',
   variants=world_variants(3, 1), unwind=10, timeout=900, bound=_BOUND % 'N=3 expectations, <=1 of 2 sequences each', min_reach=0)
ob(name='world.seqdtor_then_call.calls_continue', kind='BL', props=['C14'], unit='world_ii', harness='h_world.c', entry='w_seqdtor_then_call',
   variants=world_variants(2, 1), unwind=10, timeout=900, bound=_BOUND % 'N=2 expectations, <=1 of 2 sequences each', min_reach=0)
ob(name='world.queries', kind='BL', props=['C03', 'C06', 'C07'], unit='world_ii', harness='h_world.c', entry='w_queries',
   variants=world_variants(3, 1), unwind=10, timeout=900, bound=_BOUND % 'N=3 expectations, <=1 of 2 sequences each', min_reach=0)

# ----------------------------------------------------------------------------------------------
# unit lifetime: deathwatched<T>, lifetime_monitor, null_on_move (C13; C05 destruction; C14)
UNITS['lifetime'] = {
    'opaque': [' get_lock$'], 'dyn_types': [r'^sequence_handler<[01]>$', r'^lifetime_monitor$'],
    'roots': {
        'DW_DTOR': 'dtor:^deathwatched<vp_vp_D>$', 'DW': 'rec:^deathwatched<vp_vp_D>$', 'LM': 'rec:^lifetime_monitor$',
        'EXPECT_DEATH': '12deathwatchedIN14vp_trompeloeil4vp_DEE24trompeloeil_expect_death', 'LM_CTOR': '16lifetime_monitorC1IN14vp_trompeloeil4vp_DEEE',
        'LM_DTOR': 'dtor:^lifetime_monitor$', 'NOTIFY': '16lifetime_monitor6notifyEv', 'LM_IS_SATISFIED': '16lifetime_monitor12is_satisfiedEv', 'LM_IS_SATURATED': '16lifetime_monitor12is_saturatedEv',
        'DW_ASSIGN': '12deathwatchedIN14vp_trompeloeil4vp_DEEaSERKS3_', 'DW_COPY': '12deathwatchedIN14vp_trompeloeil4vp_DEEC1IJRS3_EvEE',
        'DW_MOVE': '12deathwatchedIN14vp_trompeloeil4vp_DEEC1IJS3_EvEE', 'DW_COPY_CONST': '12deathwatchedIN14vp_trompeloeil4vp_DEEC1ERKS3_', 'DW_CTOR': '12deathwatchedIN14vp_trompeloeil4vp_DEEC1IJEvEE',
        'NOM_ASSIGN_COPY': '12null_on_moveINS_16lifetime_monitorEEaSERKS2_', 'NOM_ASSIGN_PTR': '12null_on_moveINS_16lifetime_monitorEEaSEPS1_',
        'SH0': 'rec:^sequence_handler<0>$', 'SH1': 'rec:^sequence_handler<1>$', 'SM': 'rec:^sequence_matcher$', 'ST': 'rec:^sequence_type$',
        'SH0_CTOR': '16sequence_handlerILm0EEC1',
    },
    'stub_aliases': {
        'VS_SHB_CAN_BE_CALLED': r'^vs_.*sequence_handler_base13can_be_called', 'VS_SHB_RETIRE_PRED': r'^vs_.*sequence_handler_base19retire_predecessors',
        'VS_SHB_VALIDATE': r'^vs_.*sequence_handler_base8validate', 'VS_DTOR_SHB': '^vs_dtor_S_sequence_handler_base$', 'VS_DTOR_SH0': '^vs_dtor_S_sequence_handler_0$',
    },
}
_SEQ3 = [('noseq', {'W_SEQ': 0}), ('first', {'W_SEQ': 1}), ('behind', {'W_SEQ': 2})]
ob(name='lifetime.unexpected_destruction', kind='FC+', props=['C13', 'C14', 'C15'], unit='lifetime', harness='h_lifetime.c', entry='l_unexpected', unwind=4)
ob(name='lifetime.expected_destruction', kind='FC+', props=['C05', 'C06', 'C13', 'C14', 'C15'], unit='lifetime', harness='h_lifetime.c', entry='l_expected', variants=_SEQ3, unwind=4, min_reach=0,
   bound='loop-free after fixing the heap shape: monitor unsequenced / first in line / behind one pending predecessor with free bounds and count')
ob(name='lifetime.requirement_released_first', kind='FC+', props=['C13', 'C14', 'C15'], unit='lifetime', harness='h_lifetime.c', entry='l_released_first', variants=_SEQ3[:2], unwind=4, min_reach=0)
ob(name='lifetime.two_requirements', kind='FC+', props=['C13', 'C14'], unit='lifetime', harness='h_lifetime.c', entry='l_two_monitors', unwind=4)
ob(name='lifetime.two_requirements_released', kind='FC+', props=['C13', 'C14', 'C15'], unit='lifetime', harness='h_lifetime.c', entry='l_two_released', unwind=4)
ob(name='lifetime.copy_move_assign', kind='FC+', props=['C13', 'C14'], unit='lifetime', harness='h_lifetime.c', entry='l_copy_move_assign', unwind=4)

# ----------------------------------------------------------------------------------------------
# unit tracer: tracer nesting, trace_agent, set_reporter (C16, C17)
UNITS['tracer'] = {
    'opaque': [' get_lock$'], 'dyn_types': [],
    'roots': {
        'TRACER': 'rec:^tracer$', 'TRACER_CTOR': '6tracerC1Ev', 'TRACER_DTOR': 'dtor:^tracer$', 'SET_TRACER': '10set_tracerEPNS_6tracerE', 'TRACER_OBJ': '10tracer_objEv',
        'TA': 'rec:^trace_agent$', 'TA_CTOR': '11trace_agentC1ENS_8location', 'TA_DTOR': 'dtor:^trace_agent$',
        'TA_TRACE_PARAMS': '11trace_agent12trace_paramsIJSt17reference_wrapperIiEEEE', 'TA_TRACE_RETURN': '11trace_agent12trace_returnIRiEET_OS3_', 'TA_TRACE_EXCEPTION': '11trace_agent15trace_exceptionEv',
        'SET_REPORTER1': r'12set_reporterESt8functionIFvNS_8severityEPKcmRKNSt7__cxx1112basic_stringIcSt11char_traitsIcESaIcEEEEE$', 'SET_REPORTER2': r'12set_reporterESt8function.*S0_IFvS3_EE$',
        'SEND': '8reporterINS_11specializedEE4sendE', 'SEND_OK': '8reporterINS_11specializedEE6sendOkE',
    },
    'stub_aliases': {'VS_TRACE': r'^vs_.*6tracer5trace'},
}
ob(name='tracer.nesting', kind='FC+', props=['C17', 'C14'], unit='tracer', harness='h_tracer.c', entry='t_nesting', unwind=4,
   bound='loop-free; nesting precondition: tracers are destroyed in reverse order of construction (stated assumption of C14/C17)')
ob(name='tracer.trace_agent', kind='FC+', props=['C17', 'C08'], unit='tracer', harness='h_tracer.c', entry='t_agent', unwind=26)
ob(name='reporter.set_reporter', kind='FC+', props=['C16', 'C15'], unit='tracer', harness='h_tracer.c', entry='r_set_reporter', unwind=4)

# ----------------------------------------------------------------------------------------------
# unit list_prims: intrusive ring primitives under DFCC function contracts (C14 core; used by C04/C06 arguments)
UNITS['list_prims'] = {
    'opaque': [], 'dyn_types': [],
    'roots': {
        'UNLINK': '9list_elemINS_17call_matcher_baseIFiiEEEE6unlinkEv', 'IS_LINKED': '9list_elemINS_17call_matcher_baseIFiiEEEE9is_linkedEv',
        'PUSH_FRONT': '4listINS_17call_matcher_baseIFiiEEENS_15ignore_disposerEE10push_frontEPS3_', 'PUSH_BACK': '4listINS_17call_matcher_baseIFiiEEENS_15ignore_disposerEE9push_backEPS3_',
        'LE_MOVE_ASSIGN': '9list_elemINS_17call_matcher_baseIFiiEEEEaSEOS4_', 'LE': r'rec:^list_elem<call_matcher_base<int\(int\)>>$',
        'LIST': r'rec:^list<call_matcher_base<int\(int\)>,ignore_disposer>$', 'CMB': r'rec:^call_matcher_base<int\(int\)>$',
        'EXPS_MOVE': '12expectationsILb1EFiiEEC1EOS2_', 'MEXPS': r'rec:^expectations<true,int\(int\)>$',
    },
}
for fn, entry in (('UNLINK', 'p_unlink'), ('IS_LINKED', 'p_is_linked'), ('PUSH_FRONT', 'p_push_front'), ('PUSH_BACK', 'p_push_back'), ('LE_MOVE_ASSIGN', 'p_move_assign')):
    ob(name='list_prims.%s.contract' % fn.lower(), kind='FC', props=['C14'] + (['C04'] if fn in ('UNLINK', 'IS_LINKED') else []) + (['C02'] if fn == 'PUSH_FRONT' else []) + (['C03', 'C06'] if fn == 'PUSH_BACK' else []),
       unit='list_prims', specs=['list_prims.spec'], contracts=[fn], harness='h_list_prims.c', entry=entry, enforce=fn,
       bound='none: rings of any length (only self, next, prev are touched); alias shapes 0/1/2 each reachable')
ob(name='list_prims.shapes_cover', kind='FC', props=['C14'], unit='list_prims', harness='h_list_prims.c', entry='p_shapes_cover', unwind=6,
   bound='meta-obligation: the three alias shapes used in the contracts are exhaustive and disjoint (checked on rings of 1..4 nodes; shapes only distinguish 1, 2, >=3)')
ob(name='list_prims.mock_move', kind='FC+', props=['C14'], unit='list_prims', harness='h_list_prims.c', entry='p_exps_move', unwind=4,
   variants=[('A%dS%d' % (na, ns), {'NA': na, 'NS': ns}) for na in (0, 1, 2) for ns in (0, 1, 2)], min_reach=0,
   bound='active and saturated lists of 0..2 expectations each (the move touches only the two sentinels and their neighbours: list_elem::operator=(&&) contract)')

# ----------------------------------------------------------------------------------------------
# unit matchers: scalar matchers and combinators through the library's own entry param_matches<M,U> (C10)
UNITS['matchers'] = {
    'opaque': [r'6vp_absILi\dEE7matchesERKi'], 'dyn_types': [],
    'roots': {
        "PM_NOT": "13param_matchesINS_11not_matcherIN14vp_trompeloeil6vp_absILi1EEEEESt17reference_wrapperIiEE",
        "PM_DEREF": "13param_matchesINS_9ptr_derefIN14vp_trompeloeil6vp_absILi1EEEEESt17reference_wrapperIPiEE",
        "PM_ANY1": "13param_matchesINS_17predicate_matcherINS_4impl14any_of_checkerE.*JN14vp_trompeloeil6vp_absILi1EEEEEEJS8_EEESt17reference_wrapperIiEE",
        "PM_ANY2": "13param_matchesINS_17predicate_matcherINS_4impl14any_of_checkerE.*vp_absILi1EEENS7_ILi2EEEEEEJS8_S9_EEESt17reference_wrapperIiEE",
        "PM_ANY3": "13param_matchesINS_17predicate_matcherINS_4impl14any_of_checkerE.*vp_absILi1EEENS7_ILi2EEENS7_ILi3EEEEEEJS8_S9_SA_EEE",
        "PM_ALL3": "13param_matchesINS_17predicate_matcherINS_4impl14all_of_checkerE.*vp_absILi1EEENS7_ILi2EEENS7_ILi3EEEEEEJS8_S9_SA_EEE",
        "PM_NONE3": "13param_matchesINS_17predicate_matcherINS_4impl15none_of_checkerE.*vp_absILi1EEENS7_ILi2EEENS7_ILi3EEEEEEJS8_S9_SA_EEE",
        "PM_ANY_VAL": "13param_matchesINS_17predicate_matcherINS_4impl14any_of_checkerE.*JiN14vp_trompeloeil6vp_absILi1EEEEEEJiS8_EEE",
        "PM_ANY0": "13param_matchesINS_17predicate_matcherINS_4impl14any_of_checkerENS2_14any_of_printerENS_18duck_typed_matcherIS3_JEEEJEEE",
        "PM_ALL0": "13param_matchesINS_17predicate_matcherINS_4impl14all_of_checkerENS2_14all_of_printerENS_18duck_typed_matcherIS3_JEEEJEEE",
        "PM_NONE0": "13param_matchesINS_17predicate_matcherINS_4impl15none_of_checkerENS2_15none_of_printerENS_18duck_typed_matcherIS3_JEEEJEEE",
        "PM_EQ": "13param_matchesINS_17predicate_matcherINS_7lambdas5equalENS2_13equal_printerENS_18duck_typed_matcherIS3_JiEEEJiEEESt17reference_wrapperIiEE",
        "PM_NE": "13param_matchesINS_17predicate_matcherINS_7lambdas9not_equalE.*18duck_typed_matcherIS3_JiEEEJiEEESt17reference_wrapperIiEE",
        "PM_LT": "13param_matchesINS_17predicate_matcherINS_7lambdas4lessENS2_12less_printerENS_18duck_typed_matcherIS3_JiEEEJiEEESt17reference_wrapperIiEE",
        "PM_LE": "13param_matchesINS_17predicate_matcherINS_7lambdas10less_equalE.*18duck_typed_matcherIS3_JiEEEJiEEESt17reference_wrapperIiEE",
        "PM_GT": "13param_matchesINS_17predicate_matcherINS_7lambdas7greaterENS2_15greater_printerENS_18duck_typed_matcherIS3_JiEEEJiEEESt17reference_wrapperIiEE",
        "PM_GE": "13param_matchesINS_17predicate_matcherINS_7lambdas13greater_equalE.*18duck_typed_matcherIS3_JiEEEJiEEESt17reference_wrapperIiEE",
        "PM_EQ_T": "13param_matchesINS_17predicate_matcherINS_7lambdas5equalENS2_13equal_printerENS_13typed_matcherIiEEJiEEE",
        "PM_LT_T": "13param_matchesINS_17predicate_matcherINS_7lambdas4lessENS2_12less_printerENS_13typed_matcherIiEEJiEEE",
        "PM_WILD": "13param_matchesINS_8wildcardESt17reference_wrapperIiEE",
        "PM_ANYT": "13param_matchesINS_17predicate_matcherINS_7lambdas13any_predicateENS2_11any_printerENS_13typed_matcherIiEEJEEESt17reference_wrapperIiEE",
        "PM_VALUE": "13param_matchesIiSt17reference_wrapperIiEE",
        "PM_MEMBER": "13param_matchesINS_17predicate_matcherINS_4impl17member_is_matcherI.*6vp_absILi1EEE",
        "PM_RE": "13param_matchesINS_17predicate_matcherINS_7lambdas11regex_checkE.*St17reference_wrapperIPKcEE",
        "PM_RE_STR": "13param_matchesINS_17predicate_matcherINS_7lambdas11regex_checkE.*St17reference_wrapperISB_EE",
        "PM_EQ_D": "13param_matchesINS_17predicate_matcherINS_7lambdas5equalENS2_13equal_printerENS_18duck_typed_matcherIS3_JdEEEJdEEESt17reference_wrapperIdEE",
        "PM_NE_D": "13param_matchesINS_17predicate_matcherINS_7lambdas9not_equalE.*18duck_typed_matcherIS3_JdEEEJdEEESt17reference_wrapperIdEE",
        "PM_LT_D": "13param_matchesINS_17predicate_matcherINS_7lambdas4lessENS2_12less_printerENS_18duck_typed_matcherIS3_JdEEEJdEEESt17reference_wrapperIdEE",
        "PM_LE_D": "13param_matchesINS_17predicate_matcherINS_7lambdas10less_equalE.*18duck_typed_matcherIS3_JdEEEJdEEESt17reference_wrapperIdEE",
        "PM_GT_D": "13param_matchesINS_17predicate_matcherINS_7lambdas7greaterENS2_15greater_printerENS_18duck_typed_matcherIS3_JdEEEJdEEESt17reference_wrapperIdEE",
        "PM_GE_D": "13param_matchesINS_17predicate_matcherINS_7lambdas13greater_equalE.*18duck_typed_matcherIS3_JdEEEJdEEESt17reference_wrapperIdEE",
        "RE3": r"^_ZN11trompeloeil2reINS_8wildcardE.*syntax_option_typeENSF_15match_flag_typeE$", "RE2": r"^_ZN11trompeloeil2reINS_8wildcardE.*EEDaSC_NSt15regex_constants15match_flag_typeE$",
        "PM_DEREF_UP": "13param_matchesINS_9ptr_derefIN14vp_trompeloeil6vp_absILi1EEEEESt17reference_wrapperISt10unique_ptrIiSt14default_deleteIiEEEE",
        "PM_EQ_NULL": "13param_matchesINS_17predicate_matcherINS_7lambdas5equalENS2_13equal_printerENS_18duck_typed_matcherIS3_JDnEEEJDnEEESt17reference_wrapperIPiEE",
        "PM_NE_NULL": "13param_matchesINS_17predicate_matcherINS_7lambdas9not_equalE.*18duck_typed_matcherIS3_JDnEEEJDnEEESt17reference_wrapperIPiEE",
        "PM_NULLPTR": "13param_matchesIDnSt17reference_wrapperIPiEE",
        "PM_DEREF_EQ": "13param_matchesINS_9ptr_derefINS_17predicate_matcherINS_7lambdas5equalE.*JiEEEJiEEEEESt17reference_wrapperIPiEE",
        "PM_NOT_DEREF_EQ": "13param_matchesINS_11not_matcherINS_9ptr_derefINS_17predicate_matcherINS_7lambdas5equalE.*St17reference_wrapperIPiEE",
        "PM_DEREF_NOT_GT": "13param_matchesINS_9ptr_derefINS_11not_matcherINS_17predicate_matcherINS_7lambdas7greaterE.*St17reference_wrapperIPiEE",
},
}
for e in ('m_eq', 'm_ne', 'm_lt', 'm_le', 'm_gt', 'm_ge', 'm_eq_typed', 'm_lt_typed', 'm_value', 'm_wildcard', 'm_not', 'm_deref', 'm_any_of', 'm_all_none_of', 'm_any_of_value', 'm_member_is', 'm_re', 'm_re_string', 'm_null', 'm_nested', 'm_double', 'm_re_flags', 'm_deref_smart'):
    ob(name='matchers.%s' % e[2:], kind='FC+', props=['C10'], unit='matchers', harness='h_matchers.c', entry=e, unwind=5,
       bound='none: loop-free, full 32-bit argument and operand domain (m_double: every pair of IEEE-754 doubles incl. NaN, infinities, signed zeros); combinators over abstract operand matchers (arity <= 3 as instantiated)')
LEVELS['C10'] = 'proof'

# ----------------------------------------------------------------------------------------------
# report / trace TEXT obligations (token-level model of ostringstream, VP_TOK_CAP=40)
def _text_variants(n, ncond_digits, extra=None):
    out = []
    for tag, w in shapes_where(n):
        d = {'N': n, 'KMAX': 1, 'W_WHERE': w, 'W_NCOND': ncond_digits, 'VP_TOK_CAP': 24}
        if extra: d.update(extra)
        out.append(('N%d.%s' % (n, tag), d))
    return out
ob(name='world.text.no_match_listing', kind='BL', props=['C15', 'C04', 'C08'], unit='world_ii', harness='h_world.c', entry='w_nomatch_text',
   variants=_text_variants(2, 8), unwind=26, timeout=1800, min_reach=0,
   bound=_BOUND % 'N=2 expectations x {active,saturated,detached}, two WITH clauses each with free results; message = token log of capacity 40')
ob(name='world.text.unfulfilled_report', kind='BL', props=['C04', 'C15'], unit='world_ii', harness='h_world.c', entry='w_unfulfilled_text',
   variants=[('N1.' + tag, dict(d, W_T=0)) for tag, d in [(t, {'N': 1, 'KMAX': 1, 'W_WHERE': w, 'W_NCOND': 0, 'VP_TOK_CAP': 24}) for t, w in shapes_where(1, (0,))]], unwind=26, timeout=900, min_reach=0,
   bound='one expectation, free bounds and count')
ob(name='world.text.forbidden_call_report', kind='BL', props=['C07', 'C15'], unit='world_ii', harness='h_world.c', entry='w_forbidden_text',
   variants=[('N1.A', {'N': 1, 'KMAX': 1, 'W_WHERE': 0, 'W_NCOND': 0, 'VP_TOK_CAP': 24}), ('N2.AA', {'N': 2, 'KMAX': 1, 'W_WHERE': 0, 'W_NCOND': 0, 'VP_TOK_CAP': 24})], unwind=26, timeout=900, min_reach=0,
   bound='one or two active expectations, the candidate forbidding (upper bound 0), free argument value')
ob(name='world.text.trace_record', kind='BL', props=['C17', 'C08'], unit='world_ii', harness='h_world.c', entry='w_trace_text',
   variants=[('N1.A.act%d' % a, {'N': 1, 'KMAX': 1, 'W_WHERE': 0, 'W_NCOND': 0, 'W_NACT': a, 'VP_TOK_CAP': 24}) for a in (0, 1, 2)], unwind=26, timeout=900, min_reach=0,
   bound='one expectation with 0..2 side effects (free throw behaviour) and a return handler')

ob(name='world.find.two_with_clauses', kind='BL', props=['C01', 'C02', 'C08'], unit='world_ii', harness='h_world.c', entry='w_find',
   variants=[(t, dict(d, W_NCOND=8)) for t, d in world_variants(2, 1)] + [('N2.AA.c02', {'N': 2, 'KMAX': 1, 'W_WHERE': 0, 'W_NCOND': 2 + 0 * 3}), ('N2.AA.c21', {'N': 2, 'KMAX': 1, 'W_WHERE': 0, 'W_NCOND': 1 + 2 * 3})],
   unwind=7, min_reach=0, bound=_BOUND % 'N=2 expectations with 0..2 WITH clauses each (free results)')
ob(name='world.text.sequence_destruction_listing', kind='BL', props=['C06', 'C15'], unit='world_ii', harness='h_world.c', entry='w_seqdtor_text',
   variants=_text_variants(3, 13), unwind=26, timeout=900, min_reach=0,
   bound=_BOUND % 'N=3 expectations, <=1 of 2 sequences each; message = token log of capacity 24')

# ----------------------------------------------------------------------------------------------
# unit world_mv: the same closure for a MOVABLE mock (primary template expectations<true,Sig>, mock_func<true,...>)
import copy
UNITS['world_mv'] = copy.deepcopy(UNITS['world_ii'])
UNITS['world_mv']['roots']['MOCK_FUNC'] = '9mock_funcILb1EFiiEJRiEE'
UNITS['world_mv']['roots']['EXPS'] = r'rec:^expectations<true,int\(int\)>$'
UNITS['world_mv']['roots']['EXPS_DTOR'] = r'dtor:^expectations<true,int\(int\)>$'
ob(name='world_mv.mockdtor.movable_mock_dies_first', kind='BL', props=['C04', 'C14', 'C15'], unit='world_mv', harness='h_world.c', entry='w_mockdtor',
   variants=world_variants(2, 1), unwind=10, timeout=900, bound=_BOUND % 'movable mock, N=2 expectations', min_reach=0)
ob(name='world_mv.call.mock_func', kind='BL', props=['C01', 'C02', 'C03', 'C05', 'C07', 'C08', 'C14', 'C16'], unit='world_mv', harness='h_world.c', entry='w_call',
   variants=world_variants(2, 1), unwind=10, timeout=1800, bound=_BOUND % 'movable mock, N=2 expectations', min_reach=0)

# ----------------------------------------------------------------------------------------------
# C19 (partial): compile-time guards of the expectation clauses, and the macro-prefix sentence
import sf
ob(name='guards.clause_type_state', kind='FC', props=['C19'], unit=None, run=sf.run_guards,
   bound='none: every valuation of the abstract clause type-state (25 flags/bounds); 28 static_assert conditions of times/runtime_times/in_sequence/sideeffect/handle_return/handle_throw/operator+/lifetime in_sequence')
ob(name='forms.compile_time_forms', kind='SF', props=['C19'], unit=None, run=sf.run_forms,
   bound='exact for the 24 misuse forms and 19 legal forms listed in specs/c19_forms.py, g++ 12 -std=c++14 (thorough: +17); other forms are covered only through the guard conditions')
ob(name='macros.long_macros_prefix', kind='SF', props=['C19'], unit=None, run=sf.run_macros,
   bound='exact for the configuration compiled: trompeloeil.hpp, -std=c++14 (thorough: +17, +20); framework adapter headers not included (their frameworks are not installed)')
LEVELS['C19'] = 'proof'

# ----------------------------------------------------------------------------------------------
# unit print: value printing (C18, partial)
UNITS['print'] = {
    'opaque': [], 'dyn_types': [],
    'roots': {'PRINT_INT': '5printIiEEvRSoRKT_', 'PRINT_CSTR': '5printIPKcEEvRSoRKT_', 'PRINT_PTR': '5printIPiEEvRSoRKT_', 'PRINT_NULLPTR': '5printERSoDn',
              'PRINT_S': '5printIN14vp_trompeloeil4vp_SEEEvRSoRKT_', 'PRINT_B1': '5printIN14vp_trompeloeil5vp_B1EEEvRSoRKT_',
              'PRINT_B9': '5printIN14vp_trompeloeil5vp_B9EEEvRSoRKT_', 'PRINT_B17': '5printIN14vp_trompeloeil6vp_B17EEEvRSoRKT_'},
}
for e in ('p_int', 'p_cstr', 'p_ptr', 'p_nullptr'):
    ob(name='print.%s' % e[2:], kind='FC+', props=['C18'], unit='print', harness='h_print.c', entry=e, unwind=4, bound='none: loop-free, every prior stream state')
for e, sz in (('p_struct1', 1), ('p_struct4', 4), ('p_struct9', 9), ('p_struct17', 17)):
    ob(name='print.hexdump_%d_bytes' % sz, kind='FC+', props=['C18'], unit='print', harness='h_print.c', entry=e, unwind=26,
       bound='object size fixed by the type (sizeof = %d): the byte loop has a concrete bound; all byte values and every prior stream state symbolic' % sz)
# structural printing: pairs, tuples, collections element-wise, user-provided printer<T>
UNITS['print2'] = {
    'opaque': [r'7printerIN14vp_trompeloeil5vp_UPEvE5print'], 'dyn_types': [],
    'roots': {'PRINT_PAIR': '5printISt4pairIiPKcEEEvRSoRKT_', 'PRINT_TUPLE': '5printISt5tupleIJiPiPKcEEEEvRSoRKT_', 'PRINT_ARR': '5printIA3_iEEvRSoRKT_', 'PRINT_SARR': '5printISt5arrayIPKcLm2EEEEvRSoRKT_',
              'PRINT_UP': '5printIN14vp_trompeloeil5vp_UPEEEvRSoRKT_', 'PRINT_NESTED': '5printISt4pairIN14vp_trompeloeil5vp_UPEiEEEvRSoRKT_'},
    'stub_aliases': {'USER_PRINTER': r'^f_.*7printerIN14vp_trompeloeil5vp_UPEvE5print'},
}
for e in ('q_pair', 'q_tuple', 'q_collections', 'q_user_printer'):
    ob(name='print.structural.%s' % e[2:], kind='FC+', props=['C18'], unit='print2', harness='h_print2.c', entry=e, unwind=26,
       bound='none for the values: every null / non-null combination of the pointer members, every prior stream state; element counts fixed by the types (pair, 3-tuple, int[3], std::array<char const*,2>)')
LEVELS['C18'] = 'proof'

# ----------------------------------------------------------------------------------------------
# unit ranges: range matchers over a C array (C11, partial + bounded)
UNITS['ranges'] = {
    'opaque': [r'6vp_absILi\dEE7matchesERKi'], 'dyn_types': [],
    'roots': {
        "RG_IS3": "13param_matchesINS_17predicate_matcherINS_4impl19is_elements_checkerE.*vp_absILi1EEENS7_ILi2EEENS7_ILi3EEEEEEJS8_S9_SA_EEESt17reference_wrapperIA3_iEE",
        "RG_IS2": "13param_matchesINS_17predicate_matcherINS_4impl19is_elements_checkerE.*vp_absILi1EEENS7_ILi2EEEEEEJS8_S9_EEESt17reference_wrapperIA3_iEE",
        "RG_STARTS2": "13param_matchesINS_17predicate_matcherINS_4impl28starts_with_elements_checkerE.*vp_absILi1EEENS7_ILi2EEEEEEJS8_S9_EEE",
        "RG_STARTS3": "13param_matchesINS_17predicate_matcherINS_4impl28starts_with_elements_checkerE.*NS7_ILi3EEEEEEJS8_S9_SA_EEE",
        "RG_ENDS2": "13param_matchesINS_17predicate_matcherINS_4impl17ends_with_checkerE.*vp_absILi1EEENS7_ILi2EEEEEEJS8_S9_EEE",
        "RG_ENDS3": "13param_matchesINS_17predicate_matcherINS_4impl17ends_with_checkerE.*NS7_ILi3EEEEEEJS8_S9_SA_EEE",
        "RG_ALL": "13param_matchesINS_17predicate_matcherINS_4impl20range_all_of_checkerE.*St17reference_wrapperIA3_iEE",
        "RG_ANY": "13param_matchesINS_17predicate_matcherINS_4impl20range_any_of_checkerE.*St17reference_wrapperIA3_iEE",
        "RG_NONE": "13param_matchesINS_17predicate_matcherINS_4impl21range_none_of_checkerE.*St17reference_wrapperIA3_iEE",
        "RG_IS_VALUES": "13param_matchesINS_17predicate_matcherINS_4impl19is_elements_checkerE.*JiiiEEEJiiiEEESt17reference_wrapperIA3_iEE"
},
}
for e in ('r_is', 'r_is_values', 'r_starts_ends', 'r_all_any_none'):
    ob(name='ranges.%s' % e[2:], kind='BL', props=['C11'], unit='ranges', harness='h_ranges.c', entry=e, unwind=6,
       bound='range = C array of length 3 (the length is part of the type, so the loops have a concrete bound); element lists of length 2-3; element matchers abstract (free answer per element) or plain int values')

# unit ranges2: range_includes / range_is_permutation (std::vector<std::function<bool(const E&)>> of predicate closures)
_PM = "13param_matchesINS_17predicate_matcherINS_4impl"
UNITS['ranges2'] = {
    'opaque': [r'6vp_absILi\dEE7matchesERKi'], 'dyn_types': [], 'erase_functions': True, 'vector_cap': 4,
    'roots': {
        "RG_INC12": _PM + "25includes_elements_checkerE.*vp_absILi1EEENS7_ILi2EEEEEEJS8_S9_EEESt17reference_wrapperIA3_iEE",
        "RG_INC11": _PM + "25includes_elements_checkerE.*vp_absILi1EEES8_EEEJS8_S8_EEESt17reference_wrapperIA3_iEE",
        "RG_INC_VALUES": _PM + "25includes_elements_checkerE.*JiiEEEJiiEEESt17reference_wrapperIA3_iEE",
        "RG_PERM123": _PM + "31is_permutation_elements_checkerE.*vp_absILi1EEENS7_ILi2EEENS7_ILi3EEEEEEJS8_S9_SA_EEESt17reference_wrapperIA3_iEE",
        "RG_PERM12": _PM + "31is_permutation_elements_checkerE.*vp_absILi1EEENS7_ILi2EEEEEEJS8_S9_EEESt17reference_wrapperIA3_iEE",
        "RG_PERM_VALUES": _PM + "31is_permutation_elements_checkerE.*JiiiEEEJiiiEEESt17reference_wrapperIA3_iEE",
    },
}
for e in ('r_includes', 'r_includes_values', 'r_permutation', 'r_permutation_values'):
    ob(name='ranges.%s' % e[2:], kind='BL', props=['C11'], unit='ranges2', harness='h_ranges2.c', entry=e, unwind=6,
       bound='range = C array of length 3; element lists of length 2-3 (std::vector model capacity 4); element matchers abstract (free answer per element) or plain int values')

# unit ranges3: the range-of-values flavours (elements held as mini_span<int>: one instantiation covers every element-list length)
UNITS['ranges3'] = {
    'opaque': [], 'dyn_types': [], 'erase_functions': True, 'vector_cap': 4,
    'roots': {
        "RGR_INC": _PM + "22includes_range_checkerE.*9mini_spanIiEEEEEJS7_EEESt17reference_wrapperIA3_iEE",
        "RGR_PERM": _PM + "28is_permutation_range_checkerE.*9mini_spanIiEEEEEJS7_EEESt17reference_wrapperIA3_iEE",
        "RGR_IS": _PM + "16is_range_checkerE.*9mini_spanIiEEEEEJS7_EEESt17reference_wrapperIA3_iEE",
        "RGR_STARTS": _PM + "25starts_with_range_checkerE.*9mini_spanIiEEEEEJS7_EEESt17reference_wrapperIA3_iEE",
        "RGR_ENDS": _PM + "23ends_with_range_checkerE.*9mini_spanIiEEEEEJS7_EEESt17reference_wrapperIA3_iEE",
    },
}
for e in ('rr_is_starts_ends', 'rr_includes', 'rr_permutation'):
    ob(name='ranges.values_range.%s' % e[3:], kind='BL', props=['C11'], unit='ranges3', harness='h_ranges3.c', entry=e, unwind=7,
       bound='range = C array of length 3; list of element values given as a range (C array seen through mini_span) of every length 0..4 (std::vector model capacity 4); all int values')

# unit ranges4: the range matchers over a std::vector<int> of symbolic length 0..4 (the vector is the fixed-capacity model)
_VEC = "St17reference_wrapperISt6vectorIiSaIiEEE"
UNITS['ranges4'] = {
    'opaque': [r'6vp_absILi\dEE7matchesERKi'], 'dyn_types': [], 'erase_functions': True, 'vector_cap': 4,
    'roots': {
        "RV_IS": _PM + "19is_elements_checkerE.*JiiiEEEJiiiEEE" + _VEC, "RV_STARTS": _PM + "28starts_with_elements_checkerE.*JiiEEEJiiEEE" + _VEC,
        "RV_ENDS": _PM + "17ends_with_checkerE.*JiiEEEJiiEEE" + _VEC, "RV_INC": _PM + "25includes_elements_checkerE.*JiiEEEJiiEEE" + _VEC,
        "RV_PERM": _PM + "31is_permutation_elements_checkerE.*JiiiEEEJiiiEEE" + _VEC,
        "RV_ALL": _PM + "20range_all_of_checkerE.*" + _VEC, "RV_ANY": _PM + "20range_any_of_checkerE.*" + _VEC, "RV_NONE": _PM + "21range_none_of_checkerE.*" + _VEC,
    },
}
for e in ('rv_is_starts_ends', 'rv_includes_permutation', 'rv_all_any_none'):
    ob(name='ranges.vector.%s' % e[3:], kind='BL', props=['C11'], unit='ranges4', harness='h_ranges4.c', entry=e, unwind=9,
       bound='range = std::vector<int> of every length 0..4 (trusted fixed-capacity model), all element values free; element lists of length 2-3 (plain values) or one abstract matcher')

# ----------------------------------------------------------------------------------------------
# unit find_is: UNBOUNDED induction (init / step / exit as DFCC contracts) for find()'s selection rule (C02)
UNITS['find_is'] = {
    'opaque': [], 'dyn_types': [],
    'ghost_fields': {r'^call_matcher_base<int\(int\)>$': ['_Bool g_matches', 'unsigned g_cost', 'unsigned long g_pos']},
    'roots': {'FIND': '4findIFiiEE', 'CMB': r'rec:^call_matcher_base<int\(int\)>$', 'CML': r'rec:^call_matcher_list<int\(int\)>$', 'LE': r'rec:^list_elem<call_matcher_base<int\(int\)>>$'},
    'stub_aliases': {'VS_CMB_MATCHES': r'^vs_.*call_matcher_baseIFiiEE7matches', 'VS_CMB_COST': r'^vs_.*call_matcher_baseIFiiEE13sequence_cost'},
}
for part in ('init', 'iter', 'exit'):
    ob(name='find_is.%s' % part, kind='IS', props=['C02'], unit='find_is', harness='h_find_is.c', entry='is_' + part, outline={'FIND': 'find'}, enforce='find__' + part,
       bound='none: lists of any length (inductive invariant over the outlined loop of the real find(); matches()/sequence_cost() abstracted by ghost fields)', min_reach=2)

UNITS['seq_is'] = {
    'opaque': [], 'dyn_types': [],
    'ghost_fields': {r'^sequence_matcher$': ['unsigned long g_pos']},
    'roots': {'COST': '13sequence_type4costE', 'IS_COMPLETED': '13sequence_type12is_completedEv', 'SM': 'rec:^sequence_matcher$', 'ST': 'rec:^sequence_type$', 'LE': r'rec:^list_elem<sequence_matcher>$'},
}
for fn, short, e in (('COST', 'cost', 'c'), ('IS_COMPLETED', 'completed', 'k')):
    for part in ('init', 'iter', 'exit'):
        ob(name='seq_is.%s.%s' % (short, part), kind='IS', props=['C02', 'C05', 'C06'] if short == 'cost' else ['C06'], unit='seq_is', harness='h_seq_is.c', entry='%s_%s' % (e, part),
           outline={fn: short}, defines={'WANT_' + short.upper(): 1}, enforce='%s__%s' % (short, part), min_reach=1,
           bound='none: sequences of any length < 2^32 handles (inductive invariant over the outlined loop of the real function)')
LEVELS['C06'] = 'proof'; LEVELS['C05'] = 'proof'

UNITS['clause_is'] = {
    'opaque': [' get_lock$', 'report_forbidden_call', 'params_string'], 'dyn_types': [r'^sequence_handler<0>$'],
    'ghost_fields': {r'^condition_base<int\(int\)>$': ['_Bool g_result', 'int g_evals', 'unsigned long g_stamp', 'unsigned long g_pos'],
                     r'^side_effect_base<int\(int\)>$': ['int g_throws', 'int g_runs', 'unsigned long g_stamp', 'unsigned long g_pos']},
    'roots': {'MATCH_CONDITIONS': '12call_matcherIFiiESt5tupleIJNS_8wildcardEEEE16match_conditionsE', 'RUN_ACTIONS': '12call_matcherIFiiESt5tupleIJNS_8wildcardEEEE11run_actionsE',
              'CM': r'rec:^call_matcher<int\(int\),std::tuple<wildcard>>$', 'COND': r'rec:^condition_base<int\(int\)>$', 'SEFF': r'rec:^side_effect_base<int\(int\)>$',
              'LEC': r'rec:^list_elem<condition_base<int\(int\)>>$', 'LEA': r'rec:^list_elem<side_effect_base<int\(int\)>>$'},
    'stub_aliases': {'VS_COND_CHECK': r'^vs_.*condition_baseIFiiEE5check', 'VS_ACTION': r'^vs_.*side_effect_baseIFiiEE6action'},
}
for short, e, parts in (('mcond', 'm', ('init', 'iter', 'exit')), ('ract', 'a', ('iter', 'exit'))):
    for part in parts:
        ob(name='clause_is.%s.%s' % ('match_conditions' if short == 'mcond' else 'action_loop', part), kind='IS', props=['C08'], unit='clause_is', harness='h_clause_is.c', entry='%s_%s' % (e, part),
           outline={'MATCH_CONDITIONS' if short == 'mcond' else 'RUN_ACTIONS': short}, defines={'WANT_' + short.upper(): 1}, enforce='%s__%s' % (short, part), min_reach=1, allow_nobody=['f__ZN11trompeloeil8get_lock', 'vpx_', 'vs_', 'f__ZN11trompeloeil21report_forbidden', 'f__ZN11trompeloeil13params_string'],
           bound='none: any number of WITH clauses / side effects (inductive invariant over the outlined loop of the real function)')
LEVELS['C08'] = 'proof'

UNITS['retire_is'] = {
    'opaque': [], 'dyn_types': [], 'ghost_fields': {r'^sequence_matcher$': ['unsigned long g_pos']},
    'roots': {'RETIRE_UNTIL': '13sequence_type12retire_untilE', 'SM': 'rec:^sequence_matcher$', 'ST': 'rec:^sequence_type$', 'LE': r'rec:^list_elem<sequence_matcher>$'},
}
ob(name='retire_is.retire_until.iter', kind='IS', props=['C05'], unit='retire_is', harness='h_retire_is.c', entry='r_iter', outline={'RETIRE_UNTIL': 'runtil'}, enforce='runtil__iter', min_reach=5,
   bound='none: sequences of any length (inductive step over the outlined loop of the real retire_until; init and exit parts are empty)')

UNITS['dtor_is'] = {
    'opaque': [' get_lock$'], 'dyn_types': [],
    'ghost_fields': {r'^call_matcher_base<int\(int\)>$': ['unsigned long g_pos', 'int g_md_calls'], r'^sequence_matcher$': ['unsigned long g_pos']},
    'roots': {'DECOMMISSION': '17call_matcher_listIFiiEE12decommissionEv', 'CMB': r'rec:^call_matcher_base<int\(int\)>$', 'CML': r'rec:^call_matcher_list<int\(int\)>$',
              'LE': r'rec:^list_elem<call_matcher_base<int\(int\)>>$', 'ST_DTOR_BODY': '13sequence_typeD1Ev', 'SM': 'rec:^sequence_matcher$', 'ST': 'rec:^sequence_type$', 'LES': r'rec:^list_elem<sequence_matcher>$'},
    'stub_aliases': {'VS_MOCK_DESTROYED': r'^vs_.*call_matcher_baseIFiiEE14mock_destroyed'},
}
for al, short, e, props, label in (('DECOMMISSION', 'decom', 'd', ['C04', 'C14'], 'decommission'), ('ST_DTOR_BODY', 'stdtor', 's', ['C06', 'C14', 'C15'], 'sequence_type_dtor')):
    for part in ('iter', 'exit'):
        ob(name='dtor_is.%s.%s' % (label, part), kind='IS', props=props, unit='dtor_is', harness='h_dtor_is.c', entry='%s_%s' % (e, part), outline={al: short}, defines={'WANT_' + short.upper(): 1},
           enforce='%s__%s' % (short, part), min_reach=1, bound='none: lists of any length (inductive step over the outlined loop of the real function)',
           post_tags=({1: ['C15'], 2: ['C06', 'C14'], 3: ['C06', 'C14']} if (short, part) == ('stdtor', 'iter') else {1: ['C06', 'C15']} if (short, part) == ('stdtor', 'exit') else None))
LEVELS['C04'] = 'proof'; LEVELS['C14'] = 'proof'

UNITS['ract_fc'] = {
    'opaque': [' get_lock$'], 'dyn_types': [],
    'roots': {'RUN_ACTIONS': '12call_matcherIFiiESt5tupleIJNS_8wildcardEEEE11run_actionsE', 'CM': r'rec:^call_matcher<int\(int\),std::tuple<wildcard>>$',
              'LE': r'rec:^list_elem<call_matcher_base<int\(int\)>>$'},
    'stub_aliases': {'VS_SHB_CAN_BE_CALLED': r'^vs_.*sequence_handler_base13can_be_called', 'VS_SHB_RETIRE': r'^vs_.*sequence_handler_base6retireEv',
                     'VS_SHB_RETIRE_PRED': r'^vs_.*sequence_handler_base19retire_predecessors', 'VS_SHB_VALIDATE': r'^vs_.*sequence_handler_base8validate'},
}
ob(name='run_actions.decision_logic.contract', kind='FC', props=['C01', 'C03', 'C05', 'C06', 'C07', 'C08', 'C14', 'C15', 'C16'], unit='ract_fc', harness='h_ract_fc.c', entry='f_init', outline={'RUN_ACTIONS': 'ract'}, enforce='ract__init', min_reach=5,
   post_tags={1: ['C01', 'C07', 'C15'], 2: ['C01', 'C05', 'C15'], 3: ['C01', 'C03'], 4: ['C05'], 5: ['C16'], 6: ['C14'], 7: ['C03', 'C05', 'C06'], 8: ['C03'], 9: ['C08']},
   allow_nobody=['vs_', 'vpx_'], bound='none: every state of an active expectation (free bounds and count), rings of any length in 6 alias shapes; the sequence handler\'s virtual calls are contract-only stubs')
LEVELS['C01'] = 'proof'; LEVELS['C07'] = 'proof'

# unit build: creating an expectation through the code the macros expand to (lowered from driver functions), then releasing it
UNITS['build'] = {
    'opaque': [' get_lock$'],
    'dyn_types': [r'^sequence_handler<[012]>$', r'^call_matcher<int\(int\),std::tuple<wildcard>>$', r'^return_handler_t<int\(int\),\(lambdaat.*\)>$'],
    'roots': {'BUILD': '^_ZN14vp_trompeloeil8vp_buildE', 'BUILD_PLAIN': '^_ZN14vp_trompeloeil14vp_build_plainE', 'BUILD_FORBID': '^_ZN14vp_trompeloeil15vp_build_forbidE', 'BUILD_AT_MOST': '^_ZN14vp_trompeloeil16vp_build_at_mostE', 'BUILD_AT_LEAST': '^_ZN14vp_trompeloeil17vp_build_at_leastE', 'BUILD_ALLOW': '^_ZN14vp_trompeloeil14vp_build_allowE',
              'MK_M': '^_ZN14vp_trompeloeil4vp_MC1Ev$', 'MK_SEQ': '^_ZN11trompeloeil8sequenceC1Ev$', 'M_DTOR': 'dtor:^vp_vp_M$', 'SEQ_DTOR': 'dtor:^sequence$',
              'CM': r'rec:^call_matcher<int\(int\),std::tuple<wildcard>>$', 'SM': 'rec:^sequence_matcher$', 'SH1': 'rec:^sequence_handler<1>$', 'SH0': 'rec:^sequence_handler<0>$'},
}
# unit build_full: the same, plus the user's real WITH / SIDE_EFFECT / RETURN closures as dynamic types and mock_func (kept apart: with
# these dispatch targets a symbolic exception edge in front of the dispatch makes CBMC 6.11 abort with an internal error)
UNITS['build_full'] = copy.deepcopy(UNITS['build'])
UNITS['build_full']['dyn_types'] += [r'^condition<int\(int\),\(lambdaat.*\)>$', r'^side_effect<int\(int\),\(lambdaat.*\)>$']
UNITS['build_full']['roots'].update({'BUILD_FULL': '^_ZN14vp_trompeloeil13vp_build_fullE', 'MOCK_FUNC': '9mock_funcILb0EFiiEJRiEE', 'SH2': 'rec:^sequence_handler<2>$'})
for e, props in (('b_rt_times', ['C01', 'C03', 'C04', 'C05', 'C06', 'C08', 'C14', 'C15']), ('b_two_in_sequence', ['C02', 'C04', 'C05', 'C06', 'C14']), ('b_plain_and_forbid', ['C02', 'C03', 'C04', 'C05', 'C07', 'C14', 'C15']), ('b_multiplicities', ['C03', 'C04', 'C14']),
                 ('b_full_expectation', ['C01', 'C03', 'C04', 'C05', 'C06', 'C08', 'C14', 'C15', 'C16'])):
    ob(name='build.%s' % e[2:], cbmc_flags=['--memory-leak-check'], kind='FC+' if e in ('b_rt_times', 'b_full_expectation') else 'BL', props=props, unit='build_full' if e == 'b_full_expectation' else 'build', harness='h_build.c', entry=e, unwind=6, timeout=600,
       defines={'WANT_FULL': 1} if e == 'b_full_expectation' else {},
       bound='none for the scalars (free RT_TIMES bounds); one mock object, one sequence, one or two expectations built by the real constructor chain')

# unit c09: whole scenarios written against the public macros (driver functions), lowered with the user's closures (C09, partial)
UNITS['c09'] = {
    'unwinding_ghost': True,
    'opaque': [' get_lock$'],
    'dyn_types': [r'^sequence_handler<[012]>$', r'^call_matcher<.*>$', r'^return_handler_t<.*lambdaat.*>$', r'^condition<.*\(lambdaat.*\)>$', r'^side_effect<.*\(lambdaat.*\)>$', r'^vp_vp_MI$'],
    'roots': {'C09_ALIAS': '^_ZN14vp_trompeloeil12vp_c09_aliasE', 'C09_LR': '^_ZN14vp_trompeloeil16vp_c09_lr_returnE', 'C09_POS': '^_ZN14vp_trompeloeil16vp_c09_positionsE', 'C09_A15': '^_ZN14vp_trompeloeil14vp_c09_arity15E', 'C09_A15T': '^_ZN14vp_trompeloeil20vp_c09_arity15_throwE', 'C09_RV': '^_ZN14vp_trompeloeil13vp_c09_rvalueE', 'C09_MO': '^_ZN14vp_trompeloeil15vp_c09_moveonlyE', 'C14_MOVE': '^_ZN14vp_trompeloeil11vp_c14_moveE', 'C08_THROW': '^_ZN14vp_trompeloeil12vp_c08_throwE', 'C15_PM': '^_ZN14vp_trompeloeil21vp_c15_param_mismatchE', 'C04_UNF': '^_ZN14vp_trompeloeil18vp_c04_unfulfilledE', 'C04_UNW': '^_ZN14vp_trompeloeil14vp_c04_unwoundE', 'OBS15': 'rec:^vp_vp_obs15$', 'OBS': 'rec:^vp_vp_obs$'},
}
ob(name='scenario.movable_mock_moved', cbmc_flags=['--memory-leak-check'], kind='FC+', props=['C14', 'C03', 'C15'], unit='c09', harness='h_c09.c', entry='c_move', unwind=14, timeout=900, object_bits=12, defines={'VP_TOK_CAP': 12},
   bound='none for the argument value; the scenario (movable mock with one active and one saturated expectation, moved, called, over-called) is fixed by the driver function')
ob(name='scenario.parameter_mismatch_report', cbmc_flags=['--memory-leak-check'], kind='BL', props=['C01', 'C15', 'C10'], unit='c09', harness='h_c09.c', entry='c_param_mismatch', unwind=26, timeout=1200, object_bits=12, defines={'VP_TOK_CAP': 24}, variants=[('fits', {'W_X': 5}), ('rejected', {'W_X': 7})], min_reach=0,
   bound='first argument 5 (fits) or 7 (rejected), second argument free; one expectation p(5, _) on a mock function of arity 2')
UNITS['c17s'] = {'opaque': [' get_lock$', r'9vp_tracer5traceE'], 'dyn_types': [r'^sequence_handler<[01]>$', r'^call_matcher<void\(int,int\),.*>$', r'^call_matcher<char\*\(char\*\),.*>$', r'^call_matcher<int\(int\),.*>$', r'^call_matcher<unsignedint\(unsignedint\),.*>$', r'^side_effect<.*\(lambdaat.*\)>$', r'^return_handler_t<.*lambdaat.*>$', r'^vp_vp_tracer$'],
                 'roots': {'C17_TRACE': '^_ZN14vp_trompeloeil12vp_c17_traceE', 'C17_TRACE_NULL': '^_ZN14vp_trompeloeil17vp_c17_trace_nullE', 'C18_NULL_REPORT': '^_ZN14vp_trompeloeil18vp_c18_null_reportE', 'C17_NESTED': '^_ZN14vp_trompeloeil13vp_c17_nestedE', 'OBS': 'rec:^vp_vp_obs$', 'VPTRACER': 'rec:^vp_vp_tracer$'},
                 'stub_aliases': {'TRACE_STUB': r'^f_.*9vp_tracer5traceE'}}
ob(name='scenario.unfulfilled_report_values', cbmc_flags=['--memory-leak-check'], kind='BL', props=['C04', 'C15', 'C14'], unit='c09', harness='h_c09.c', entry='c_unfulfilled', unwind=26, timeout=1200, object_bits=12, defines={'VP_TOK_CAP': 24},
   variants=[('never', {'W_X': 5}), ('once', {'W_X': 7})], min_reach=0,
   bound='one expectation p(v, _) with TIMES(2, 4) and a free value v, called never or once, then its scope ends')
ob(name='scenario.unfulfilled_when_unwound', cbmc_flags=['--memory-leak-check'], kind='FC+', props=['C04', 'C15', 'C14'], unit='c09', harness='h_c09.c', entry='c_unwound', unwind=26, timeout=1200, object_bits=12, defines={'VP_TOK_CAP': 24},
   bound='none: one unfulfilled expectation whose scope is left by the exception of a fatal report about another mock function')
ob(name='scenario.tracer_object', cbmc_flags=['--memory-leak-check'], kind='FC+', props=['C17', 'C14'], unit='c17s', harness='h_c17s.c', entry='c_trace', unwind=26, timeout=900, object_bits=12, defines={'VP_TOK_CAP': 24},
   bound='none for the argument values; one tracer object, one accepted call while it is alive and one after it died')
ob(name='scenario.tracer_nested_call', cbmc_flags=['--memory-leak-check'], kind='FC+', props=['C17', 'C08', 'C14'], unit='c17s', harness='h_c17s.c', entry='c_trace_nested', unwind=26, timeout=900, object_bits=12, defines={'VP_TOK_CAP': 24},
   bound='none for the argument values; one tracer object, one accepted call whose side effect makes a second accepted mock call')
ob(name='scenario.tracer_null_values', cbmc_flags=['--memory-leak-check'], kind='FC+', props=['C17', 'C18', 'C14', 'C08'], unit='c17s', harness='h_c17s.c', entry='c_trace_null', unwind=26, timeout=900, object_bits=12, defines={'VP_TOK_CAP': 24},
   bound='none: the argument (and returned value) is null or a non-null string; one tracer object, one accepted call of char const*(char const*)')
ob(name='scenario.null_argument_report', cbmc_flags=['--memory-leak-check'], kind='FC+', props=['C18', 'C15', 'C14', 'C01'], unit='c17s', harness='h_c17s.c', entry='c_null_report', unwind=42, timeout=900, object_bits=12, defines={'VP_TOK_CAP': 40},
   bound='none: one expectation s(ne(nullptr)) on char const*(char const*), one call with the null pointer (rejected), one with a string (accepted)')
UNITS['c13s'] = {'opaque': [' get_lock$'], 'dyn_types': [r'^sequence_handler<[01]>$', r'^lifetime_monitor$', r'^deathwatched<vp_vp_D>$', r'^call_matcher<void\(\),std::tuple<>>$'],
                 'roots': {'C13_MACROS': '^_ZN14vp_trompeloeil13vp_c13_macrosE', 'C13_SEQ': '^_ZN14vp_trompeloeil15vp_c13_sequenceE', 'C13_NAMES': '^_ZN14vp_trompeloeil16vp_c13_seq_namesE', 'C13_LISTING': '^_ZN14vp_trompeloeil18vp_c13_seq_listingE', 'OBS': 'rec:^vp_vp_obs$'}}
ob(name='scenario.sequenced_destruction', cbmc_flags=['--memory-leak-check'], kind='FC+', props=['C13', 'C05', 'C06', 'C15'], unit='c13s', harness='h_c13s.c', entry='c_seq_destruction', unwind=8, timeout=900, object_bits=12,
   bound='none: both orders (the object dies after / before the call it is sequenced behind); one sequence, one expectation, one requirement')
ob(name='scenario.sequenced_destruction_named', cbmc_flags=['--memory-leak-check'], kind='FC+', props=['C15', 'C05', 'C13', 'C14'], unit='c13s', harness='h_c13s.c', entry='c_seq_names', unwind=26, timeout=900, object_bits=12, defines={'VP_TOK_CAP': 24},
   bound='none: both histories (the step behind the requirement is called while the object lives / only after it died); one sequence, one requirement, one expectation')
ob(name='scenario.sequenced_destruction_listed', cbmc_flags=['--memory-leak-check'], kind='FC+', props=['C06', 'C15', 'C13', 'C14'], unit='c13s', harness='h_c13s.c', entry='c_seq_listing', unwind=26, timeout=900, object_bits=12, defines={'VP_TOK_CAP': 24},
   bound='none: one sequence object that dies while one destruction requirement is registered in it; the requirement then ends, then the object dies')
ob(name='scenario.require_destruction_macros', cbmc_flags=['--memory-leak-check'], kind='FC+', props=['C13', 'C15', 'C14'], unit='c13s', harness='h_c13s.c', entry='c_destruction', unwind=6, timeout=900, object_bits=12,
   bound='none: both cases (a requirement is alive / none is); one deathwatched object')
ob(name='scenario.throw_clause', cbmc_flags=['--memory-leak-check'], kind='FC+', props=['C08', 'C03', 'C14'], unit='c09', harness='h_c09.c', entry='c_throw', unwind=6, timeout=900, object_bits=12,
   bound='none for the value written by the side effect; one expectation with a side effect and THROW(7)')
for e in ('c_alias', 'c_lr', 'c_positions', 'c_arity15', 'c_arity15_throw', 'c_rvalue', 'c_moveonly'):
    ob(name='c09.%s' % e[2:], kind='FC+', props=['C09'], cbmc_flags=['--memory-leak-check'], unit='c09', harness='h_c09.c', entry=e, unwind=17 if e.startswith('c_arity15') else 6, timeout=900, object_bits=12,
       bound='none for the values (symbolic ints); the scenario (one mock function of arity 3 / 1 / 0, the clauses listed in the harness) is fixed by the driver function')

# unit mf_glue: mock_func itself as a MODULAR obligation: find(), the free report_mismatch() and the matcher's virtual run_actions() /
# return_value() are contract-only stubs (their own obligations: find_is.*, world.text.*, run_actions.decision_logic.contract, clause_is.*)
UNITS['mf_glue'] = {
    'opaque': [' get_lock$', r'^_ZN11trompeloeil4findIFiiEE', r'^_ZN11trompeloeil15report_mismatchIFiiEE'], 'dyn_types': [],
    'roots': {'MOCK_FUNC': '9mock_funcILb0EFiiEJRiEE', 'EXPS': r'rec:^expectations<false,int\(int\)>$', 'CMB': r'rec:^call_matcher_base<int\(int\)>$', 'CML': r'rec:^call_matcher_list<int\(int\)>$'},
    'stub_aliases': {'FIND_STUB': r'^f__ZN11trompeloeil4findIFiiEE', 'REPORT_MISMATCH_STUB': r'^f__ZN11trompeloeil15report_mismatchIFiiEE',
                     'VS_CMB_RUN_ACTIONS': r'^vs_.*call_matcher_baseIFiiEE11run_actions', 'VS_CMB_RETURN_VALUE': r'^vs_.*call_matcher_baseIFiiEE12return_value', 'VS_TRACE': r'^vs_.*6tracer5trace'},
}
ob(name='mock_func.glue.contract', kind='FC+', props=['C01', 'C02', 'C08', 'C14', 'C15', 'C17'], unit='mf_glue', harness='h_mf_glue.c', entry='g_glue', unwind=66, defines={'VP_TOK_CAP': 12},
   bound='none: expectation lists of any length (find() answers by contract: null or any live matcher); every behaviour of the two virtual calls (return / std exception / other exception)')

# unit dtor_fc: the end-of-lifetime decision (user-written body of ~call_matcher, mock_destroyed) - loop-free, unbounded (C04)
UNITS['dtor_fc'] = {
    'opaque': [' get_lock$'], 'dyn_types': [r'^sequence_handler<0>$'],
    'roots': {'SH0': 'rec:^sequence_handler<0>$', 'CM_DTOR_BODY': r'12call_matcherIFiiESt5tupleIJNS_8wildcardEEEED1Ev', 'MOCK_DESTROYED': r'12call_matcherIFiiESt5tupleIJNS_8wildcardEEEE14mock_destroyedEv',
              'CM': r'rec:^call_matcher<int\(int\),std::tuple<wildcard>>$', 'LE': r'rec:^list_elem<call_matcher_base<int\(int\)>>$'},
}
for e in ('d_dtor_body', 'd_mock_destroyed_then_dtor'):
    ob(name='lifetime_end.%s' % e[2:], kind='FC+', props=['C04', 'C14', 'C15'], unit='dtor_fc', harness='h_dtor_fc.c', entry=e, unwind=14,
       variants=[('shape%d' % k, {'W_SHAPE': k}) for k in (0, 1, 2)], min_reach=0,
       bound='none: every state of the expectation (free bounds, count, reported flag), list of any length (three alias shapes of its position, exhaustive for unlink / is_linked)')

# unit seqh_fc: sequence_handler<2> over its two handles, the sequence walks as contract-only stubs (C02 max rule, C05)
UNITS['seqh_fc'] = {
    'opaque': [' get_lock$', r'13sequence_type4costE', r'13sequence_type12retire_untilE', r'13sequence_type14validate_matchE'], 'dyn_types': [],
    'roots': {'ORDER2': r'16sequence_handlerILm2EE5orderEv', 'CAN_BE_CALLED2': r'16sequence_handlerILm2EE13can_be_calledEv', 'RETIRE2': r'16sequence_handlerILm2EE6retireEv',
              'RETIRE_PRED2': r'16sequence_handlerILm2EE19retire_predecessorsEv', 'VALIDATE2': r'16sequence_handlerILm2EE8validateE',
              'SH2': 'rec:^sequence_handler<2>$', 'SM': 'rec:^sequence_matcher$', 'ST': 'rec:^sequence_type$'},
    'stub_aliases': {'SEQ_COST': r'^f_.*13sequence_type4costE', 'SEQ_RETIRE_UNTIL': r'^f_.*13sequence_type12retire_untilE', 'SEQ_VALIDATE_MATCH': r'^f_.*13sequence_type14validate_matchE'},
}
for e, props in (('s_order', ['C02', 'C05']), ('s_retire_validate', ['C05', 'C06', 'C15'])):
    ob(name='seq_handler2.%s' % e[2:], kind='FC+', props=props, unit='seqh_fc', harness='h_seqh_fc.c', entry=e, unwind=4,
       bound='none: sequences of any length (cost / retire_until / validate_match by contract); the handler loops run over its two handles')

# unit seqval: sequence_type::validate_match - which sequences get a report (C05)
UNITS['seqval'] = {
    'opaque': [' get_lock$'], 'dyn_types': [],
    'roots': {'VALIDATE_MATCH': r'13sequence_type14validate_matchE', 'SM': 'rec:^sequence_matcher$', 'ST': 'rec:^sequence_type$'},
}
ob(name='seq_validate.validate_match', kind='BL', props=['C05', 'C15'], unit='seqval', harness='h_seqval.c', entry='v_validate_match', unwind=26, timeout=900,
   variants=[('N%d.T%d' % (n, t), {'W_N': n, 'W_T': t}) for n in (0, 1, 2, 3) for t in range(n + 1)], min_reach=0,
   bound='sequences of 0..3 registered handles x position of the validated handle (incl. not registered); bounds, counts and severity free')

# thorough-only: mock_func with expectations in two sequences (concrete K), larger text shapes
ob(name='world.call.mock_func.two_sequences', kind='BL', props=['C01', 'C02', 'C03', 'C05', 'C07', 'C08', 'C14', 'C15', 'C16', 'C17'], unit='world_ii', harness='h_world.c', entry='w_call', tier='thorough',
   variants=[v for v in world_variants(2, 2, True) if not v[0].endswith('K22')], unwind=10, timeout=7200, bound=_BOUND % 'N=2 expectations, expectation 0 in both sequences, expectation 1 in 0..1 (both in both sequences: CBMC does not finish within 40 minutes, left out)', min_reach=0)
ob(name='world.text.no_match_listing.three', kind='BL', props=['C15', 'C04', 'C08'], unit='world_ii', harness='h_world.c', entry='w_nomatch_text', tier='thorough',
   variants=_text_variants(3, 26, {'VP_EV_CAP': 12}), unwind=26, timeout=3600, min_reach=0, bound=_BOUND % 'N=3 expectations, two WITH clauses each; message = token log of capacity 24, event log of capacity 12')
