"""registry.py - units (what to lower), obligations (what to prove), trusted base, notes."""

TRUSTED_BASE = [
    'cxx2c lowering (tools/cxx2c*.py): clang-14 JSON AST of the instantiated real functions -> C; rules in DESIGN.md 2.1',
    'clang-14 front end (template instantiation, overload resolution, implicit conversions)',
    'CBMC 6.11.0 (goto-cc, goto-instrument --dfcc, SAT back end)',
    'std:: models in specs/vp_models.h, vp_models_impl.h (ostream/string as token logs, unique_lock as depth counter, unique_ptr as owning pointer, std::function call = conforming reporter)',
    'conforming reporter: severity fatal => throws, nonfatal => returns (docs/reference.md)',
    'single-threaded semantics (C12 not claimed); 64-bit size_t; templates verified only at the instantiations of tools/driver_tu.cpp',
    'user clauses (WITH/SIDE_EFFECT/RETURN lambdas) are contract-only stubs that do not re-enter the library',
]
ASSUMPTIONS = {}
NOTES = {}
LEVELS = {}
UNITS = {}
OBLIGATIONS = []

def ob(**kw):
    kw.setdefault('tier', 'quick')
    OBLIGATIONS.append(kw)

# ----------------------------------------------------------------------------------------------
# unit handler_base: sequence_handler_base scalar state machine (C03, C07)
UNITS['handler_base'] = {'roots': {
    'IS_SATISFIED': '21sequence_handler_base12is_satisfiedEv', 'IS_SATURATED': '21sequence_handler_base12is_saturatedEv',
    'IS_FORBIDDEN': '21sequence_handler_base12is_forbiddenEv', 'INCREMENT_CALL': '21sequence_handler_base14increment_callEv',
    'SET_LIMITS': '21sequence_handler_base10set_limitsEmm', 'GET_MIN_CALLS': '21sequence_handler_base13get_min_callsEv',
    'GET_CALLS': '21sequence_handler_base9get_callsEv'}}
for fn in ('IS_SATISFIED', 'IS_SATURATED', 'IS_FORBIDDEN', 'INCREMENT_CALL', 'SET_LIMITS', 'GET_MIN_CALLS', 'GET_CALLS'):
    ob(name='handler_base.%s.contract' % fn.lower(), kind='FC', props=['C03'] + (['C07'] if fn in ('IS_FORBIDDEN', 'IS_SATISFIED', 'IS_SATURATED') else []),
       unit='handler_base', specs=['handler_base.spec'], contracts=[fn],
       harness='h_handler_base.c', entry='h_' + fn.lower(), enforce=fn)
