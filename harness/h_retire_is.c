/* h_retire_is.c - UNBOUNDED inductive proof for sequence_type::retire_until(m) (C05: once an expectation has matched,
 * nothing registered before it in that sequence can match again): every handle before m is unregistered, m becomes
 * the first handle, handles after m are untouched; if m is not registered the sequence ends up empty.
 * Loop outlined mechanically; one iteration is a DFCC contract.  Ghost: g_k = number of handles retired so far
 * (= position of the current head), witness W = an arbitrary handle ALREADY retired (must stay unregistered). */
#define VP_TOK_CAP 1
#include "vp_models.h"
#include "unit.h"
#include "vp_models_impl.h"
typedef struct SM node; typedef struct LE link;
unsigned long g_n, g_k; int g_shape; node *g_W;
#define SENT(s) (&(s)->self->matchers._b0)
#define HEAD(s) (SENT(s)->next)
#define UNREG(nd) ((nd)->_b0.next == &(nd)->_b0 && (nd)->_b0.prev == &(nd)->_b0)
/* shapes: head in {sentinel (empty ring), m, other node}; head->next in {sentinel, m, other node} */
#define H_HEAD (g_shape % 3)
#define H_NXT ((g_shape / 3) % 3)
#define RUNTIL__ITER_CONTRACT \
  __CPROVER_requires(__CPROVER_is_fresh(s, sizeof(*s)) && __CPROVER_is_fresh(s->self, sizeof(*s->self)) && __CPROVER_is_fresh(g_W, sizeof(node)) && 0 <= g_shape && g_shape < 9 && vp_exc == 0 && !s->vp_returned && !s->vp_exited) \
  __CPROVER_requires(UNREG(g_W) && g_W->g_pos < g_k && g_k <= g_n)                                  /* invariant: everything before the head is unregistered */ \
  __CPROVER_requires(H_HEAD == 2 ? (__CPROVER_pointer_equals(HEAD(s), SENT(s)) && __CPROVER_pointer_equals(SENT(s)->prev, SENT(s)) && g_k == g_n && __CPROVER_is_fresh(s->m, sizeof(node))) \
                   : H_HEAD == 0 ? (__CPROVER_is_fresh(HEAD(s), sizeof(node)) && __CPROVER_pointer_equals(s->m, (node *)HEAD(s)) && ((node *)HEAD(s))->g_pos == g_k && g_k < g_n && HEAD(s)->prev == SENT(s)) \
                   : (__CPROVER_is_fresh(HEAD(s), sizeof(node)) && __CPROVER_is_fresh(s->m, sizeof(node)) && ((node *)HEAD(s))->g_pos == g_k && g_k < g_n && HEAD(s)->prev == SENT(s))) \
  __CPROVER_requires(H_HEAD != 1 || (H_NXT == 0 ? (__CPROVER_pointer_equals(HEAD(s)->next, SENT(s)) && __CPROVER_pointer_equals(SENT(s)->prev, HEAD(s)) && g_k + 1 == g_n) \
                                   : H_NXT == 1 ? (__CPROVER_pointer_equals(HEAD(s)->next, &s->m->_b0) && s->m->_b0.prev == HEAD(s) && s->m->g_pos == g_k + 1) \
                                   : (__CPROVER_is_fresh(HEAD(s)->next, sizeof(node)) && HEAD(s)->next->prev == HEAD(s) && ((node *)HEAD(s)->next)->g_pos == g_k + 1))) \
  __CPROVER_assigns(s->vp_returned, s->vp_exited; H_HEAD == 1: HEAD(s)->next, HEAD(s)->prev, SENT(s)->next, HEAD(s)->next->prev) \
  /* step: the old head is unregistered, its successor is the new head (one more handle retired), W stays unregistered */ \
  __CPROVER_ensures(s->vp_returned || s->vp_exited || (HEAD(s) == __CPROVER_old(HEAD(s)->next) && HEAD(s)->prev == SENT(s) && UNREG((node *)__CPROVER_old(HEAD(s))) && UNREG(g_W))) \
  /* return: m is now the first registered handle, everything before it (W) is unregistered, m itself untouched */ \
  __CPROVER_ensures(!s->vp_returned || (HEAD(s) == &s->m->_b0 && s->m->_b0.prev == SENT(s) && UNREG(g_W) && HEAD(s) == __CPROVER_old(HEAD(s)))) \
  /* exit: the ring is empty (m was not registered): every handle has been retired */ \
  __CPROVER_ensures(!s->vp_exited || (HEAD(s) == SENT(s) && UNREG(g_W)))
#define RUNTIL__INIT_CONTRACT
#define RUNTIL__EXIT_CONTRACT
#include "unit.c"
#include "runtil_outlined.c"
int nondet_int(void); unsigned long nondet_ulong(void);
void r_iter(void) { struct runtil_st *s; g_shape = nondet_int(); g_n = nondet_ulong(); g_k = nondet_ulong(); runtil__iter(s);
  __CPROVER_assert(g_shape != 2, "REACH retire_until empty"); __CPROVER_assert(g_shape != 0, "REACH retire_until head=m");
  __CPROVER_assert(g_shape != 1, "REACH retire_until head=node next=sentinel"); __CPROVER_assert(g_shape != 1 + 3, "REACH retire_until head=node next=m"); __CPROVER_assert(g_shape != 1 + 6, "REACH retire_until head=node next=node"); }
int main(void) { VP_ENTRY(); return 0; }
