/* h_matchers.c - scalar matchers and combinators (C10).  Every obligation calls the REAL param_matches<M,U>
 * instantiation (the entry the library itself uses) on a matcher object with symbolic operand(s) and a
 * symbolic argument: loop-free, full 32-bit domain.  Combinators are instantiated over abstract operand
 * matchers vp_abs<K> whose matches() is a contract-only stub returning a free boolean per (K, argument):
 * the result holds for arbitrary operands, hence for arbitrary nesting. */
#define VP_TOK_CAP 1
#include "vp_models.h"
#include "unit.h"
#include "vp_models_impl.h"
int nondet_int(void); _Bool nondet_bool(void);
/* abstract operands: answer depends only on K and the argument VALUE; every evaluation is logged */
_Bool in_ans[4]; int in_x, in_v, in_w, in_m; _Bool in_pnull; int abs_calls[4]; const int *abs_arg[4]; int abs_val[4];
static _Bool abs_eval(int k, int *v) { abs_calls[k]++; abs_arg[k] = v; abs_val[k] = *v; return in_ans[k]; }
_Bool ABS1(PM_NOT_T0 *unused_self_type_only, int *v);
_Bool f__ZNK14vp_trompeloeil6vp_absILi1EE7matchesERKi(struct S_vp_abs_1 *self, int *v) { return abs_eval(1, v); }
_Bool f__ZNK14vp_trompeloeil6vp_absILi2EE7matchesERKi(struct S_vp_abs_2 *self, int *v) { return abs_eval(2, v); }
_Bool f__ZNK14vp_trompeloeil6vp_absILi3EE7matchesERKi(struct S_vp_abs_3 *self, int *v) { return abs_eval(3, v); }
/* std::regex_search: uninterpreted; must never be reached with a null range */
_Bool re_result; int re_calls; extern char *re_b, *re_e; extern int rs_flags; extern struct vp_regex *rs_re;
_Bool vpx_regex_search__char_p_char_p_vp_regex_p_int(char *b, char *e, struct vp_regex *re, int flags)
{ __CPROVER_assert(b != 0 && e != 0, "[C10] SAFETY regex_search_never_called_on_a_null_string"); re_calls++; re_b = b; re_e = e; rs_flags = flags; rs_re = re; return re_result; }
/* std::regex: an opaque object that remembers the syntax options it was built with; copies / moves keep them */
extern int rx_opt, rx_ctor_calls;
void vpx_vp_regex_ctor__vp_string_p_int(struct vp_regex *self, struct vp_string *s, int opt) { rx_ctor_calls++; rx_opt = opt; self->id = opt; }
void vpx_vp_regex_ctor__vp_string_p(struct vp_regex *self, struct vp_string *s) { rx_ctor_calls++; rx_opt = -1; self->id = -1; }
void vpx_vp_regex_ctor__vp_regex_p(struct vp_regex *self, struct vp_regex *o) { self->id = o->id; }
unsigned long strlen_result;
unsigned long vpx_strlen__char_p(char *s) { __CPROVER_assert(s != 0, "[C10] SAFETY strlen_never_called_on_null"); return strlen_result; }
int *vpx_op_call__vp_memfn_p_S_vp_S_p(struct vp_memfn *f, struct S_vp_S *v) { return &v->m; }
#include "unit.c"

static void init_abs(void) { for (int k = 1; k <= 3; k++) { in_ans[k] = nondet_bool(); abs_calls[k] = 0; } }
#define ARG(x) int x = nondet_int(); in_x = x; struct vp_refw_int u; u.p = &x;

#define CMP_OBLIGATION(fn, PM, OP, text) \
void fn(void) { ARG(x) PM##_T0 m; int v = nondet_int(); in_v = v; m.value._0 = v; _Bool r = PM(&m, &u); \
  __CPROVER_assert(r == (x OP v), "[C10] POST " text); __CPROVER_assert(0, "REACH! " text); }
CMP_OBLIGATION(m_eq, PM_EQ, ==, "eq_accepts_exactly_x_eq_v")
CMP_OBLIGATION(m_ne, PM_NE, !=, "ne_accepts_exactly_x_ne_v")
CMP_OBLIGATION(m_lt, PM_LT, <,  "lt_accepts_exactly_x_lt_v")
CMP_OBLIGATION(m_le, PM_LE, <=, "le_accepts_exactly_x_le_v")
CMP_OBLIGATION(m_gt, PM_GT, >,  "gt_accepts_exactly_x_gt_v")
CMP_OBLIGATION(m_ge, PM_GE, >=, "ge_accepts_exactly_x_ge_v")
CMP_OBLIGATION(m_eq_typed, PM_EQ_T, ==, "explicitly_typed_eq_accepts_exactly_x_eq_v")
CMP_OBLIGATION(m_lt_typed, PM_LT_T, <,  "explicitly_typed_lt_accepts_exactly_x_lt_v")

void m_value(void) { ARG(x) int v = nondet_int(); in_v = v; _Bool r = PM_VALUE(&v, &u); __CPROVER_assert(r == (x == v), "[C10] POST plain_value_operand_accepts_exactly_equal"); __CPROVER_assert(0, "REACH! value"); }
void m_wildcard(void) { ARG(x) PM_WILD_T0 w; PM_ANYT_T0 a; __CPROVER_assert(PM_WILD(&w, &u) && PM_ANYT(&a, &u), "[C10] POST wildcard_and_ANY_accept_everything"); __CPROVER_assert(0, "REACH! wildcard"); }

void m_not(void) { init_abs(); ARG(x) PM_NOT_T0 m; _Bool r = PM_NOT(&m, &u);
  __CPROVER_assert(r == !in_ans[1], "[C10] POST not_accepts_exactly_what_its_operand_rejects");
  __CPROVER_assert(abs_calls[1] == 1 && abs_val[1] == x, "[C10] POST not_evaluates_its_operand_once_on_the_same_argument");
  __CPROVER_assert(0, "REACH! not"); }

void m_deref(void) { init_abs(); int x = nondet_int(); in_x = x; in_pnull = nondet_bool(); int *p = !in_pnull ? &x : (int *)0; PM_DEREF_T1 u; u.p = &p; PM_DEREF_T0 m; _Bool r = PM_DEREF(&m, &u);
  __CPROVER_assert(r == (p != 0 && in_ans[1]), "[C10] POST deref_accepts_iff_non_null_and_operand_accepts_the_pointee");
  __CPROVER_assert(p != 0 || abs_calls[1] == 0, "[C10] POST deref_never_evaluates_the_operand_on_a_null_pointer");
  __CPROVER_assert(p == 0 || (abs_calls[1] == 1 && abs_arg[1] == &x), "[C10] POST deref_passes_the_pointee");
  __CPROVER_assert(p != 0, "REACH deref.null"); __CPROVER_assert(0, "REACH! deref"); }

void m_any_of(void) { init_abs(); ARG(x)
  PM_ANY0_T0 m0; PM_ANY1_T0 m1; PM_ANY2_T0 m2; PM_ANY3_T0 m3;
  __CPROVER_assert(PM_ANY0(&m0, &u) == 0, "[C10] POST any_of_nothing_rejects");
  __CPROVER_assert(PM_ANY1(&m1, &u) == in_ans[1], "[C10] POST any_of_one_operand");
  __CPROVER_assert(PM_ANY2(&m2, &u) == (in_ans[1] || in_ans[2]), "[C10] POST any_of_accepts_iff_at_least_one_operand_accepts");
  __CPROVER_assert(PM_ANY3(&m3, &u) == (in_ans[1] || in_ans[2] || in_ans[3]), "[C10] POST any_of_accepts_iff_at_least_one_operand_accepts");
  __CPROVER_assert(0, "REACH! any_of"); }
void m_all_none_of(void) { init_abs(); ARG(x)
  PM_ALL0_T0 a0; PM_NONE0_T0 n0; PM_ALL3_T0 a3; PM_NONE3_T0 n3;
  __CPROVER_assert(PM_ALL0(&a0, &u) == 1 && PM_NONE0(&n0, &u) == 1, "[C10] POST all_of_and_none_of_nothing_accept");
  __CPROVER_assert(PM_ALL3(&a3, &u) == (in_ans[1] && in_ans[2] && in_ans[3]), "[C10] POST all_of_accepts_iff_every_operand_accepts");
  __CPROVER_assert(PM_NONE3(&n3, &u) == !(in_ans[1] || in_ans[2] || in_ans[3]), "[C10] POST none_of_accepts_iff_no_operand_accepts");
  for (int k = 1; k <= 3; k++) __CPROVER_assert(abs_calls[k] == 0 || abs_val[k] == x, "[C10] POST operands_see_the_same_argument");
  __CPROVER_assert(0, "REACH! all_none_of"); }
void m_any_of_value(void) { init_abs(); ARG(x) PM_ANY_VAL_T0 m; int v = nondet_int(); in_v = v; m.value._0 = v; _Bool r = PM_ANY_VAL(&m, &u);
  __CPROVER_assert(r == (x == v || in_ans[1]), "[C10] POST plain_values_as_operands_of_any_of_compare_equal");
  __CPROVER_assert(0, "REACH! any_of_value"); }

void m_member_is(void) { init_abs(); struct S_vp_S sv; sv.m = nondet_int(); in_m = sv.m; PM_MEMBER_T1 u; u.p = &sv; PM_MEMBER_T0 m; _Bool r = PM_MEMBER(&m, &u);
  __CPROVER_assert(r == in_ans[1] && abs_calls[1] == 1 && abs_val[1] == sv.m, "[C10] POST member_is_accepts_iff_the_operand_accepts_the_member");
  __CPROVER_assert(0, "REACH! member_is"); }

void m_re(void) { char buf[4]; char *s = nondet_bool() ? &buf[0] : (char *)0; PM_RE_T1 u; u.p = &s; PM_RE_T0 m; re_result = nondet_bool(); re_calls = 0; strlen_result = 2;
  _Bool r = PM_RE(&m, &u);
  __CPROVER_assert(r == (s != 0 && re_result), "[C10] POST re_accepts_iff_string_non_null_and_regex_found");
  __CPROVER_assert(s != 0 || re_calls == 0, "[C10] POST re_never_searches_a_null_string");
  __CPROVER_assert(s != 0, "REACH re.null"); __CPROVER_assert(0, "REACH! re"); }
/* re() on a std::string: the searched range is [data(), data()+length()) - not up to the first NUL */
char str_buf[8]; unsigned long str_len; char *re_b, *re_e;
char *vpx_vp_string_data(struct vp_string *self) { return str_buf; }
unsigned long vpx_vp_string_length(struct vp_string *self) { return str_len; }
void m_re_string(void) { struct vp_string sv; PM_RE_STR_T1 u; u.p = &sv; PM_RE_STR_T0 m; re_result = nondet_bool(); re_calls = 0; str_len = nondet_int(); __CPROVER_assume(str_len <= 8); strlen_result = 2;
  _Bool r = PM_RE_STR(&m, &u);
  __CPROVER_assert(r == re_result && re_calls == 1, "[C10] POST re_on_a_string_object_accepts_iff_regex_found");
  __CPROVER_assert(re_b == str_buf && re_e == str_buf + str_len, "[C10] POST re_searches_the_whole_string_object_data_to_data_plus_length");
  __CPROVER_assert(0, "REACH! re_string"); }
/* nullptr as operand and as plain value, on a pointer argument */
void m_null(void) { int x; in_pnull = nondet_bool(); int *p = !in_pnull ? &x : (int *)0; PM_EQ_NULL_T1 u; u.p = &p; PM_EQ_NULL_T0 e; PM_NE_NULL_T0 n; void *np = 0;
  __CPROVER_assert(PM_EQ_NULL(&e, &u) == (p == 0), "[C10] POST eq_nullptr_accepts_exactly_the_null_pointer");
  __CPROVER_assert(PM_NE_NULL(&n, &u) == (p != 0), "[C10] POST ne_nullptr_accepts_exactly_non_null_pointers");
  __CPROVER_assert(PM_NULLPTR(&np, &u) == (p == 0), "[C10] POST plain_nullptr_operand_accepts_exactly_the_null_pointer");
  __CPROVER_assert(p != 0, "REACH null.null"); __CPROVER_assert(0, "REACH! null"); }
/* concrete nesting (no abstract operand): *eq(v) and *!gt(v) */
void m_nested(void) { int x = nondet_int(); in_x = x; in_pnull = nondet_bool(); int *p = !in_pnull ? &x : (int *)0; PM_DEREF_EQ_T1 u; u.p = &p; int v = nondet_int(), w = nondet_int(); in_v = v; in_w = w;
  PM_DEREF_EQ_T0 de; de.m.value._0 = v; PM_DEREF_NOT_GT_T0 dn; dn.m.m.value._0 = w;
  __CPROVER_assert(PM_DEREF_EQ(&de, &u) == (p != 0 && x == v), "[C10] POST nested_deref_of_eq");
  __CPROVER_assert(PM_DEREF_NOT_GT(&dn, &u) == (p != 0 && !(x > w)), "[C10] POST nested_deref_of_not_of_gt");
  PM_NOT_DEREF_EQ_T0 nd; nd.m.m.value._0 = v;
  __CPROVER_assert(PM_NOT_DEREF_EQ(&nd, &u) == !(p != 0 && x == v), "[C10] POST nested_not_of_deref_of_eq_accepts_exactly_what_the_deref_rejects_the_null_pointer_included");
  __CPROVER_assert(0, "REACH! nested"); }
/* comparison matchers on double: every pair of IEEE-754 values, so unordered operands (NaN) included */
double nondet_double(void); double in_dx, in_dv;
#define DCMP(PM, OP, text) { PM##_T0 m; m.value._0 = v; __CPROVER_assert(PM(&m, &u) == (x OP v), "[C10] POST " text); }
void m_double(void) { double x = nondet_double(), v = nondet_double(); in_dx = x; in_dv = v; PM_EQ_D_T1 u; u.p = &x;
  DCMP(PM_EQ_D, ==, "double_eq_accepts_exactly_x_eq_v") DCMP(PM_NE_D, !=, "double_ne_accepts_exactly_x_ne_v") DCMP(PM_LT_D, <, "double_lt_accepts_exactly_x_lt_v")
  DCMP(PM_LE_D, <=, "double_le_accepts_exactly_x_le_v") DCMP(PM_GT_D, >, "double_gt_accepts_exactly_x_gt_v") DCMP(PM_GE_D, >=, "double_ge_accepts_exactly_x_ge_v")
  __CPROVER_assert(x == x && v == v, "REACH double.unordered"); __CPROVER_assert(0, "REACH! double"); }
/* re(s, syntax options, match flags) and re(s, match flags): the options reach the regular expression, the flags reach every search */
int rx_opt, rx_ctor_calls; int rs_flags; struct vp_regex *rs_re;
void m_re_flags(void) { char *s = &str_buf[0]; PM_RE_T1 u; u.p = &s; int opt = nondet_int(), mt = nondet_int(); re_result = nondet_bool(); re_calls = 0; strlen_result = 2;
  struct vp_string pat; vpx_vp_string_ctor(&pat);
  PM_RE_T0 m3 = RE3(pat, opt, mt);
  __CPROVER_assert(rx_ctor_calls == 1 && rx_opt == opt, "[C10] POST re.the_syntax_options_reach_the_regular_expression");
  _Bool r = PM_RE(&m3, &u);
  __CPROVER_assert(r == re_result && re_calls == 1 && rs_flags == mt && rs_re != 0 && rs_re->id == opt, "[C10] POST re.the_match_flags_and_that_regular_expression_reach_the_search");
  rx_ctor_calls = 0; re_calls = 0; struct vp_string pat2; vpx_vp_string_ctor(&pat2);
  PM_RE_T0 m2 = RE2(pat2, mt);
  r = PM_RE(&m2, &u);
  __CPROVER_assert(rx_ctor_calls == 1 && r == re_result && re_calls == 1 && rs_flags == mt, "[C10] POST re.the_two_argument_form_passes_the_match_flags");
  __CPROVER_assert(0, "REACH! re_flags"); }
/* *m on a smart pointer (std::unique_ptr<int>) */
void m_deref_smart(void) { init_abs(); int x = nondet_int(); in_x = x; in_pnull = nondet_bool(); int *up = !in_pnull ? &x : (int *)0; PM_DEREF_UP_T1 u; u.p = &up; PM_DEREF_UP_T0 m; _Bool r = PM_DEREF_UP(&m, &u);
  __CPROVER_assert(r == (up != 0 && in_ans[1]), "[C10] POST deref_of_a_smart_pointer_accepts_iff_non_null_and_operand_accepts_the_pointee");
  __CPROVER_assert(up != 0 || abs_calls[1] == 0, "[C10] POST deref_never_evaluates_the_operand_on_a_null_smart_pointer");
  __CPROVER_assert(up == 0 || (abs_calls[1] == 1 && abs_arg[1] == &x), "[C10] POST deref_of_a_smart_pointer_passes_the_pointee");
  __CPROVER_assert(up != 0, "REACH deref_smart.null"); __CPROVER_assert(0, "REACH! deref_smart"); }
int main(void) { VP_ENTRY(); return 0; }
