/* h_seqh_fc.c - sequence_handler<2> (an expectation in two sequences) as UNBOUNDED modular obligations (C02, C05): the
 * handler's own loops run over its two handles (concrete bound), everything that walks a sequence is a contract-only stub
 * with its own obligation: sequence_type::cost (seq_is.cost.*), retire_until (retire_is.*), validate_match (world.*).
 * So the results hold for sequences of any length. */
#define VP_TOK_CAP 1
#include "vp_models.h"
#include "unit.h"
#include "vp_models_impl.h"
unsigned nondet_uint(void); _Bool nondet_bool(void);
struct SH2 the_h; struct ST seq_a, seq_b;
unsigned in_c0, in_c1; int cost_calls[2]; int ru_calls[2]; int vm_calls[2]; int vm_sev[2]; unsigned long vm_line[2]; const char *vm_name[2];
static int which(struct SM *m) { return m == &the_h.matchers.matchers.e[0] ? 0 : m == &the_h.matchers.matchers.e[1] ? 1 : -1; }
unsigned SEQ_COST(struct ST *self, struct SM *m) { int k = which(m); __CPROVER_assert(k >= 0 && self == (k == 0 ? &seq_a : &seq_b), "[C02] POST seqh.each_handle_asks_its_own_sequence_about_itself"); cost_calls[k]++; return k == 0 ? in_c0 : in_c1; }
void SEQ_RETIRE_UNTIL(struct ST *self, struct SM *m) { int k = which(m); __CPROVER_assert(k >= 0 && self == (k == 0 ? &seq_a : &seq_b), "[C05] POST seqh.each_handle_retires_predecessors_in_its_own_sequence"); ru_calls[k]++; }
void SEQ_VALIDATE_MATCH(struct ST *self, int s, struct SM *m, char *seq_name, char *match_name, struct S_location loc)
{ int k = which(m); __CPROVER_assert(k >= 0 && self == (k == 0 ? &seq_a : &seq_b), "[C05] POST seqh.each_handle_is_validated_against_its_own_sequence"); vm_calls[k]++; vm_sev[k] = s; vm_line[k] = loc.line; vm_name[k] = match_name; }
#include "unit.c"
typedef struct S_list_elem_sequence_matcher sle;
static void setup(void)
{
  in_c0 = nondet_uint(); in_c1 = nondet_uint();
  the_h._b0.vp_tag = VP_TAG_S_sequence_handler_2;
  for (int k = 0; k < 2; k++) { struct SM *m = &the_h.matchers.matchers.e[k]; m->_b0.vp_tag = VP_TAG_S_sequence_matcher; m->seq = k == 0 ? &seq_a : &seq_b; m->sequence_handler = &the_h._b0; m->seq_name = k == 0 ? "a" : "b"; cost_calls[k] = ru_calls[k] = vm_calls[k] = 0; }
}
void s_order(void)
{
  setup();
  unsigned o = ORDER2(&the_h);
  unsigned mx = in_c0 > in_c1 ? in_c0 : in_c1;
  __CPROVER_assert(o == ((in_c0 == ~0U || in_c1 == ~0U) ? ~0U : mx), "[C02] POST seqh.cost_of_an_expectation_in_two_sequences_is_the_larger_of_its_costs_and_unavailable_if_either_is");
  __CPROVER_assert(cost_calls[0] == 1 && cost_calls[1] == 1, "[C02] POST seqh.each_sequence_is_asked_once");
  setup();
  _Bool can = CAN_BE_CALLED2(&the_h);
  __CPROVER_assert(can == (in_c0 != ~0U && in_c1 != ~0U), "[C05] POST seqh.callable_iff_permitted_by_every_one_of_its_sequences");
  __CPROVER_assert(0, "REACH! s_order");
}
void s_retire_validate(void)
{
  setup();
  /* the two handles are registered: each between two distinct neighbours */
  sle na0, na1, nb0, nb1; sle *h0 = &the_h.matchers.matchers.e[0]._b0, *h1 = &the_h.matchers.matchers.e[1]._b0;
  h0->prev = &na0; h0->next = &na1; na0.next = h0; na1.prev = h0; h1->prev = &nb0; h1->next = &nb1; nb0.next = h1; nb1.prev = h1;
  RETIRE_PRED2(&the_h);
  __CPROVER_assert(ru_calls[0] == 1 && ru_calls[1] == 1, "[C05] POST seqh.an_accepted_call_retires_the_predecessors_in_each_of_its_sequences");
  __CPROVER_assert(h0->next == &na1 && h1->next == &nb1, "[C05] FRAME seqh.retiring_predecessors_leaves_its_own_handles_registered");
  struct S_location loc; loc.file = "x.cpp"; loc.line = 42;
  VALIDATE2(&the_h, 0, "name", loc);
  __CPROVER_assert(vm_calls[0] == 1 && vm_calls[1] == 1 && vm_sev[0] == 0 && vm_sev[1] == 0 && vm_line[0] == 42 && vm_line[1] == 42, "[C05,C15] POST seqh.a_rejected_call_is_validated_against_each_sequence_with_the_given_severity_and_location");
  RETIRE2(&the_h);
  __CPROVER_assert(h0->next == h0 && h0->prev == h0 && h1->next == h1 && h1->prev == h1 && na0.next == &na1 && na1.prev == &na0 && nb0.next == &nb1 && nb1.prev == &nb0, "[C05,C06] POST seqh.a_saturated_expectation_leaves_every_one_of_its_sequences");
  __CPROVER_assert(0, "REACH! s_retire_validate");
}
int main(void) { VP_ENTRY(); return 0; }
