/* h_clause_is.c - UNBOUNDED inductive proofs for the two clause loops of an expectation (C08):
 *   match_conditions(): WITH clauses are evaluated in declaration order, each at most once, and stop at the first that fails;
 *   the action loop of run_actions(): side effects run once each in declaration order; a throwing one stops the rest.
 * Loops outlined mechanically from the lowered functions; one iteration and the exit are DFCC function contracts.
 * Ghost per clause object: g_pos (position in the list), g_evals/g_runs (how often it was evaluated), g_stamp (value of
 * the global evaluation clock when it was evaluated).  Witness W = an arbitrary clause; g_n = list length. */
#define VP_TOK_CAP 1
#include "vp_models.h"
#include "unit.h"
#include "vp_models_impl.h"
unsigned long g_n, vp_clock, g_clock0; int g_shape;
typedef struct COND cnode; typedef struct LEC clink; cnode *g_W; clink *g_sent;
typedef struct SEFF anode; typedef struct LEA alink; anode *g_AW; alink *g_asent;
_Bool VS_COND_CHECK(cnode *self, struct vp_tuple_vp_refw_int *p) { self->g_evals++; self->g_stamp = vp_clock++; return self->g_result; }
void VS_ACTION(anode *self, struct vp_tuple_vp_refw_int *p) { self->g_runs++; self->g_stamp = vp_clock++; if (self->g_throws) vp_exc = self->g_throws; }

/* ------------------------------------------------------------------ match_conditions */
#define CN(l) ((cnode *)(l))
#define CPOS(l) ((l) == g_sent ? g_n : CN(l)->g_pos)
#define CCUR(s) ((s)->__begin0.p)
#define CTAG VP_TAG_USER_S_list_elem_condition_base_int_int
#define CFRESH(l) (__CPROVER_is_fresh(l, sizeof(cnode)) && CN(l)->_b0.vp_tag == CTAG && CN(l)->g_pos < g_n)
/* every clause before the cursor was evaluated exactly once, at clock0 + its position, and held; none after it was evaluated */
#define CINV(s) (vp_clock == g_clock0 + CPOS(CCUR(s)) && \
  (g_W->g_pos < CPOS(CCUR(s)) ? (g_W->g_evals == 1 && g_W->g_stamp == g_clock0 + g_W->g_pos && g_W->g_result) : g_W->g_evals == 0))
#define MC_COMMON \
  __CPROVER_requires(__CPROVER_is_fresh(s, sizeof(*s)) && __CPROVER_is_fresh(g_sent, sizeof(clink)) && __CPROVER_is_fresh(g_W, sizeof(cnode)) && g_W->_b0.vp_tag == CTAG && g_W->g_pos < g_n) \
  __CPROVER_requires(0 <= g_shape && g_shape < 9 && vp_exc == 0 && g_clock0 < 1000000 && g_n < 1000000 && !s->vp_returned && !s->vp_exited && __CPROVER_pointer_equals(s->__end0.p, g_sent)) \
  __CPROVER_requires((g_shape % 3) == 0 ? __CPROVER_pointer_equals(CCUR(s), &g_W->_b0) : (g_shape % 3) == 1 ? (CFRESH(CCUR(s)) && CN(CCUR(s))->g_pos != g_W->g_pos && CN(CCUR(s))->g_evals == 0) : __CPROVER_pointer_equals(CCUR(s), g_sent))
#define MCOND__ITER_CONTRACT MC_COMMON \
  __CPROVER_requires((g_shape % 3) == 2 || ((g_shape / 3) == 0 ? (__CPROVER_pointer_equals(CCUR(s)->next, g_sent) && CN(CCUR(s))->g_pos + 1 == g_n) \
                      : (g_shape / 3) == 1 ? ((g_shape % 3) == 1 && __CPROVER_pointer_equals(CCUR(s)->next, &g_W->_b0) && g_W->g_pos == CN(CCUR(s))->g_pos + 1) \
                      : (CFRESH(CCUR(s)->next) && CN(CCUR(s)->next)->g_pos == CN(CCUR(s))->g_pos + 1 && CN(CCUR(s)->next)->g_pos != g_W->g_pos))) \
  __CPROVER_requires(CINV(s)) \
  __CPROVER_assigns(s->__begin0.p, s->vp_returned, s->vp_exited, s->vp_retval, vp_clock; (g_shape % 3) != 2: CN(CCUR(s))->g_evals, CN(CCUR(s))->g_stamp) \
  __CPROVER_ensures(s->vp_returned || s->vp_exited || (CINV(s) && CCUR(s) == __CPROVER_old(CCUR(s)->next))) \
  /* returning false: the cursor clause was evaluated (in its turn) and failed; W after it was never evaluated */ \
  __CPROVER_ensures(!s->vp_returned || (s->vp_retval == 0 && !CN(__CPROVER_old(CCUR(s)))->g_result && CN(__CPROVER_old(CCUR(s)))->g_evals == 1 && \
                    (g_W->g_pos < CN(__CPROVER_old(CCUR(s)))->g_pos ? (g_W->g_evals == 1 && g_W->g_result) : g_W == CN(__CPROVER_old(CCUR(s))) ? 1 : g_W->g_evals == 0))) \
  __CPROVER_ensures(!s->vp_exited || __CPROVER_old(CCUR(s)) == g_sent)
#define MCOND__EXIT_CONTRACT MC_COMMON \
  __CPROVER_requires((g_shape % 3) == 2 && CINV(s)) \
  __CPROVER_assigns(s->vp_returned, s->vp_retval) \
  __CPROVER_ensures(s->vp_returned && s->vp_retval == 1 && g_W->g_evals == 1 && g_W->g_result)   /* true only if every clause was evaluated once and held */
#define MCOND__INIT_CONTRACT \
  __CPROVER_requires(__CPROVER_is_fresh(s, sizeof(*s)) && __CPROVER_is_fresh(s->self, sizeof(*s->self))) \
  __CPROVER_assigns(s->__range2, s->__begin0, s->__end0) \
  __CPROVER_ensures(s->__end0.p == &s->self->conditions._b0 && CCUR(s) == s->self->conditions._b0.next)

/* ------------------------------------------------------------------ action loop of run_actions */
#define AN(l) ((anode *)(l))
#define APOS(l) ((l) == g_asent ? g_n : AN(l)->g_pos)
#define ACUR(s) ((s)->__begin0.p)
#define ATAG VP_TAG_USER_S_list_elem_side_effect_base_int_int
#define AFRESH(l) (__CPROVER_is_fresh(l, sizeof(anode)) && AN(l)->_b0.vp_tag == ATAG && AN(l)->g_pos < g_n)
#define AINV(s) (vp_clock == g_clock0 + APOS(ACUR(s)) && vp_exc == 0 && \
  (g_AW->g_pos < APOS(ACUR(s)) ? (g_AW->g_runs == 1 && g_AW->g_stamp == g_clock0 + g_AW->g_pos && !g_AW->g_throws) : g_AW->g_runs == 0))
#define RA_COMMON \
  __CPROVER_requires(__CPROVER_is_fresh(s, sizeof(*s)) && __CPROVER_is_fresh(g_asent, sizeof(alink)) && __CPROVER_is_fresh(g_AW, sizeof(anode)) && g_AW->_b0.vp_tag == ATAG && g_AW->g_pos < g_n) \
  __CPROVER_requires(0 <= g_shape && g_shape < 9 && g_clock0 < 1000000 && g_n < 1000000 && !s->vp_returned && !s->vp_exited && __CPROVER_pointer_equals(s->__end0.p, g_asent) && s->lock.held && vp_lock_depth == 1) \
  __CPROVER_requires((g_shape % 3) == 0 ? __CPROVER_pointer_equals(ACUR(s), &g_AW->_b0) : (g_shape % 3) == 1 ? (AFRESH(ACUR(s)) && AN(ACUR(s))->g_pos != g_AW->g_pos && AN(ACUR(s))->g_runs == 0) : __CPROVER_pointer_equals(ACUR(s), g_asent))
#define RACT__ITER_CONTRACT RA_COMMON \
  __CPROVER_requires((g_shape % 3) == 2 || ((g_shape / 3) == 0 ? (__CPROVER_pointer_equals(ACUR(s)->next, g_asent) && AN(ACUR(s))->g_pos + 1 == g_n) \
                      : (g_shape / 3) == 1 ? ((g_shape % 3) == 1 && __CPROVER_pointer_equals(ACUR(s)->next, &g_AW->_b0) && g_AW->g_pos == AN(ACUR(s))->g_pos + 1) \
                      : (AFRESH(ACUR(s)->next) && AN(ACUR(s)->next)->g_pos == AN(ACUR(s))->g_pos + 1 && AN(ACUR(s)->next)->g_pos != g_AW->g_pos))) \
  __CPROVER_requires(AINV(s)) \
  __CPROVER_assigns(s->__begin0.p, s->vp_returned, s->vp_exited, vp_clock, vp_exc, s->lock.held, vp_lock_depth; (g_shape % 3) != 2: AN(ACUR(s))->g_runs, AN(ACUR(s))->g_stamp) \
  __CPROVER_ensures(s->vp_returned || s->vp_exited || (AINV(s) && ACUR(s) == __CPROVER_old(ACUR(s)->next))) \
  /* leaving by exception: it is the cursor's own, thrown in its turn; nothing after it ran; the lock is released */ \
  __CPROVER_ensures(!s->vp_returned || (vp_exc != 0 && vp_exc == AN(__CPROVER_old(ACUR(s)))->g_throws && AN(__CPROVER_old(ACUR(s)))->g_runs == 1 && vp_lock_depth == 0 && \
                    (g_AW->g_pos < AN(__CPROVER_old(ACUR(s)))->g_pos ? g_AW->g_runs == 1 : g_AW == AN(__CPROVER_old(ACUR(s))) ? 1 : g_AW->g_runs == 0))) \
  __CPROVER_ensures(!s->vp_exited || __CPROVER_old(ACUR(s)) == g_asent)
#define RACT__EXIT_CONTRACT RA_COMMON \
  __CPROVER_requires((g_shape % 3) == 2 && AINV(s)) \
  __CPROVER_assigns(s->lock.held, vp_lock_depth) \
  __CPROVER_ensures(g_AW->g_runs == 1 && !g_AW->g_throws && vp_exc == 0 && vp_lock_depth == 0)      /* normal completion: every side effect ran exactly once */
#define RACT__INIT_CONTRACT

#include "unit.c"
#ifdef WANT_MCOND
#include "mcond_outlined.c"
#endif
#ifdef WANT_RACT
#include "ract_outlined.c"
#endif
int nondet_int(void); unsigned long nondet_ulong(void);
static void ghost(void) { g_shape = nondet_int(); g_n = nondet_ulong(); g_clock0 = nondet_ulong(); vp_clock = nondet_ulong(); }
#ifdef WANT_MCOND
void m_iter(void) { struct mcond_st *s; ghost(); mcond__iter(s); __CPROVER_assert(g_shape != 0, "REACH mcond cur=W last"); __CPROVER_assert(g_shape != 1 + 3, "REACH mcond cur=node next=W"); __CPROVER_assert(g_shape != 2, "REACH mcond cur=sentinel"); __CPROVER_assert(g_shape != 1 + 6, "REACH mcond cur=node next=node"); }
void m_exit(void) { struct mcond_st *s; ghost(); mcond__exit(s); __CPROVER_assert(g_shape != 2, "REACH mcond exit"); }
void m_init(void) { struct mcond_st *s; mcond__init(s); __CPROVER_assert(0, "REACH mcond init"); }
#endif
#ifdef WANT_RACT
void a_iter(void) { struct ract_st *s; ghost(); vp_lock_depth = 1; ract__iter(s); __CPROVER_assert(g_shape != 0, "REACH ract cur=W last"); __CPROVER_assert(g_shape != 1 + 3, "REACH ract cur=node next=W"); __CPROVER_assert(g_shape != 2, "REACH ract cur=sentinel"); }
void a_exit(void) { struct ract_st *s; ghost(); vp_lock_depth = 1; ract__exit(s); __CPROVER_assert(g_shape != 2, "REACH ract exit"); }
#endif
int main(void) { VP_ENTRY(); return 0; }
