/* h_seq_is.c - UNBOUNDED inductive proofs for sequence_type::cost() and sequence_type::is_completed() (C02, C05, C06):
 * loops outlined mechanically (tools/outline.py), init / iteration / exit discharged as DFCC contracts.
 * Ghost: g_pos (position of a handle in the ring), g_n (ring length), g_fu (position of the first handle whose
 * expectation has NOT reached its lower bound, g_n if there is none).  WF instances used at the cursor node c:
 *   c.pos < g_n;  c.pos < g_fu => satisfied(c);  c.pos == g_fu => !satisfied(c);  positions are unique;
 *   successor of position k is the sentinel iff k+1 == g_n, else the node at k+1.
 * Specification: cost(m) = m.pos if m is registered and no earlier handle is unsatisfied (m.pos <= g_fu), else ~0;
 *                is_completed() = (g_fu == g_n). */
#define VP_TOK_CAP 1
#include "vp_models.h"
#include "unit.h"
#include "vp_models_impl.h"
typedef struct SM node; typedef struct LE link;
unsigned long g_n, g_fu; link *g_sent; _Bool g_m_in_ring; int g_shape;
#define NODE_OF(l) ((node *)(l))
#define POS(l) ((l) == g_sent ? g_n : NODE_OF(l)->g_pos)
#define SAT(nd) ((nd)->sequence_handler->call_count >= (nd)->sequence_handler->min_calls)
#define FRESH_NODE(l) (__CPROVER_is_fresh(l, sizeof(node)) && __CPROVER_is_fresh(NODE_OF(l)->sequence_handler, sizeof(struct S_sequence_handler_base)) && NODE_OF(l)->g_pos < g_n)
#define WF_AT(nd) ((nd)->g_pos < g_n && (!((nd)->g_pos < g_fu) || SAT(nd)) && (!((nd)->g_pos == g_fu) || !SAT(nd)))
#define SPEC_COST(s) ((g_m_in_ring && (s)->m->g_pos <= g_fu) ? (unsigned)(s)->m->g_pos : ~0U)

/* ------------------------------------------------------------------ cost(m) */
#define CCUR(s) ((s)->__begin1.p)
#define INVC(s) ((s)->sequence_cost == POS(CCUR(s)) && POS(CCUR(s)) <= g_fu && (!g_m_in_ring || (s)->m->g_pos >= POS(CCUR(s))))
/* shapes: cursor in {node that is m, other node, sentinel}; successor in {sentinel, m, other node} */
#define C_CUR (g_shape % 3)
#define C_NXT ((g_shape / 3) % 3)
#define COST_COMMON \
  __CPROVER_requires(__CPROVER_is_fresh(s, sizeof(*s)) && __CPROVER_is_fresh(g_sent, sizeof(link)) && 0 <= g_shape && g_shape < 9 && g_fu <= g_n && g_n < 0xffffffffUL && vp_exc == 0) \
  __CPROVER_requires(__CPROVER_pointer_equals(s->__end1.p, g_sent) && !s->vp_returned && !s->vp_exited) \
  __CPROVER_requires(C_CUR == 0 ? (FRESH_NODE(CCUR(s)) && __CPROVER_pointer_equals(s->m, NODE_OF(CCUR(s))) && g_m_in_ring) \
                   : C_CUR == 1 ? (FRESH_NODE(CCUR(s)) && __CPROVER_is_fresh(s->m, sizeof(node)) && (!g_m_in_ring || (s->m->g_pos < g_n && s->m->g_pos != NODE_OF(CCUR(s))->g_pos))) \
                   : (__CPROVER_pointer_equals(CCUR(s), g_sent) && __CPROVER_is_fresh(s->m, sizeof(node)) && (!g_m_in_ring || s->m->g_pos < g_n)))
#define COST__ITER_CONTRACT COST_COMMON \
  __CPROVER_requires(C_CUR == 2 || WF_AT(NODE_OF(CCUR(s)))) \
  __CPROVER_requires(C_CUR == 2 || (C_NXT == 0 ? (__CPROVER_pointer_equals(CCUR(s)->next, g_sent) && NODE_OF(CCUR(s))->g_pos + 1 == g_n) \
                                  : C_NXT == 1 ? (C_CUR == 1 && g_m_in_ring && __CPROVER_pointer_equals(CCUR(s)->next, &s->m->_b0) && s->m->g_pos == NODE_OF(CCUR(s))->g_pos + 1) \
                                  : (__CPROVER_is_fresh(CCUR(s)->next, sizeof(node)) && NODE_OF(CCUR(s)->next)->g_pos == NODE_OF(CCUR(s))->g_pos + 1 && NODE_OF(CCUR(s)->next)->g_pos < g_n))) \
  __CPROVER_requires(INVC(s)) \
  __CPROVER_assigns(s->sequence_cost, s->__begin1.p, s->vp_returned, s->vp_exited, s->vp_retval) \
  __CPROVER_ensures(s->vp_returned || s->vp_exited || (INVC(s) && CCUR(s) == __CPROVER_old(CCUR(s)->next))) \
  __CPROVER_ensures(!s->vp_returned || s->vp_retval == SPEC_COST(s)) \
  __CPROVER_ensures(!s->vp_exited || (__CPROVER_old(CCUR(s)) == g_sent && s->sequence_cost == __CPROVER_old(s->sequence_cost)))
#define COST__EXIT_CONTRACT COST_COMMON \
  __CPROVER_requires(C_CUR == 2 && INVC(s)) \
  __CPROVER_assigns(s->vp_returned, s->vp_retval) \
  __CPROVER_ensures(s->vp_returned && s->vp_retval == SPEC_COST(s))
#define COST__INIT_CONTRACT \
  __CPROVER_requires(__CPROVER_is_fresh(s, sizeof(*s)) && __CPROVER_is_fresh(s->self, sizeof(*s->self)) && 0 <= g_shape && g_shape < 2) \
  __CPROVER_requires(g_shape == 0 ? (__CPROVER_pointer_equals(s->self->matchers._b0.next, &s->self->matchers._b0) && g_n == 0) \
                                  : (__CPROVER_is_fresh(s->self->matchers._b0.next, sizeof(node)) && NODE_OF(s->self->matchers._b0.next)->g_pos == 0 && g_n > 0)) \
  __CPROVER_assigns(s->sequence_cost, s->__range1, s->__begin1, s->__end1) \
  __CPROVER_ensures(s->__end1.p == &s->self->matchers._b0 && CCUR(s) == s->self->matchers._b0.next && s->sequence_cost == 0)

/* ------------------------------------------------------------------ is_completed() */
#define KCUR(s) ((s)->__begin1.p)
#define INVK(s) (POS(KCUR(s)) <= g_fu)
#define COMPLETED_COMMON \
  __CPROVER_requires(__CPROVER_is_fresh(s, sizeof(*s)) && __CPROVER_is_fresh(g_sent, sizeof(link)) && 0 <= g_shape && g_shape < 4 && g_fu <= g_n && vp_exc == 0) \
  __CPROVER_requires(__CPROVER_pointer_equals(s->__end1.p, g_sent) && !s->vp_returned && !s->vp_exited) \
  __CPROVER_requires((g_shape % 2) == 0 ? FRESH_NODE(KCUR(s)) : __CPROVER_pointer_equals(KCUR(s), g_sent))
#define COMPLETED__ITER_CONTRACT COMPLETED_COMMON \
  __CPROVER_requires((g_shape % 2) == 1 || WF_AT(NODE_OF(KCUR(s)))) \
  __CPROVER_requires((g_shape % 2) == 1 || ((g_shape / 2) == 0 ? (__CPROVER_pointer_equals(KCUR(s)->next, g_sent) && NODE_OF(KCUR(s))->g_pos + 1 == g_n) \
                                  : (__CPROVER_is_fresh(KCUR(s)->next, sizeof(node)) && NODE_OF(KCUR(s)->next)->g_pos == NODE_OF(KCUR(s))->g_pos + 1 && NODE_OF(KCUR(s)->next)->g_pos < g_n))) \
  __CPROVER_requires(INVK(s)) \
  __CPROVER_assigns(s->__begin1.p, s->vp_returned, s->vp_exited, s->vp_retval) \
  __CPROVER_ensures(s->vp_returned || s->vp_exited || (INVK(s) && KCUR(s) == __CPROVER_old(KCUR(s)->next))) \
  __CPROVER_ensures(!s->vp_returned || s->vp_retval == (g_fu == g_n)) \
  __CPROVER_ensures(!s->vp_exited || __CPROVER_old(KCUR(s)) == g_sent)
#define COMPLETED__EXIT_CONTRACT COMPLETED_COMMON \
  __CPROVER_requires((g_shape % 2) == 1 && INVK(s)) \
  __CPROVER_assigns(s->vp_returned, s->vp_retval) \
  __CPROVER_ensures(s->vp_returned && s->vp_retval == (g_fu == g_n))
#define COMPLETED__INIT_CONTRACT \
  __CPROVER_requires(__CPROVER_is_fresh(s, sizeof(*s)) && __CPROVER_is_fresh(s->self, sizeof(*s->self))) \
  __CPROVER_assigns(s->__range1, s->__begin1, s->__end1) \
  __CPROVER_ensures(s->__end1.p == &s->self->matchers._b0 && KCUR(s) == s->self->matchers._b0.next)

#include "unit.c"
#ifdef WANT_COST
#include "cost_outlined.c"
#endif
#ifdef WANT_COMPLETED
#include "completed_outlined.c"
#endif
int nondet_int(void); unsigned long nondet_ulong(void); _Bool nondet_bool(void);
static void ghost(void) { g_shape = nondet_int(); g_n = nondet_ulong(); g_fu = nondet_ulong(); g_m_in_ring = nondet_bool(); }
#ifdef WANT_COST
void c_iter(void) { struct cost_st *s; ghost(); cost__iter(s); __CPROVER_assert(g_shape != 0, "REACH cost cur=m"); __CPROVER_assert(g_shape != 1 + 3 * 1, "REACH cost cur=node next=m"); __CPROVER_assert(g_shape != 2, "REACH cost cur=sentinel"); __CPROVER_assert(g_shape != 1 + 3 * 2, "REACH cost cur=node next=node"); }
void c_exit(void) { struct cost_st *s; ghost(); cost__exit(s); __CPROVER_assert(g_shape != 2, "REACH cost exit"); }
void c_init(void) { struct cost_st *s; ghost(); cost__init(s); __CPROVER_assert(g_shape != 0, "REACH cost init empty"); __CPROVER_assert(g_shape != 1, "REACH cost init nonempty"); }
#endif
#ifdef WANT_COMPLETED
void k_iter(void) { struct completed_st *s; ghost(); completed__iter(s); __CPROVER_assert(g_shape != 0, "REACH completed cur=node next=sentinel"); __CPROVER_assert(g_shape != 2, "REACH completed cur=node next=node"); __CPROVER_assert(g_shape != 1, "REACH completed cur=sentinel"); }
void k_exit(void) { struct completed_st *s; ghost(); completed__exit(s); __CPROVER_assert(g_shape != 1, "REACH completed exit"); }
void k_init(void) { struct completed_st *s; ghost(); completed__init(s); __CPROVER_assert(0, "REACH completed init"); }
#endif
int main(void) { VP_ENTRY(); return 0; }
