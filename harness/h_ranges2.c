/* h_ranges2.c - range_includes / range_is_permutation over a C array of length 3 (C11, BOUNDED): the real first-fit loops
 * with swap-remove over std::vector<std::function<bool(const E&)>> (trusted models: vector = fixed-capacity array,
 * function = tagged copy of the closure; std::find_if = the loop it stands for).  Element matchers are abstract operands
 * vp_abs<K> whose answer is a free boolean per (K, element position), or plain int values. */
#define VP_TOK_CAP 1
#include "vp_models.h"
#include "unit.h"
#include "vp_models_impl.h"
int nondet_int(void); _Bool nondet_bool(void);
struct vp_carr_int_3 arr; int in_arr[3]; int in_v[3];
_Bool in_ans[4][3]; int calls[4][3];
static _Bool abs_eval(int k, int *v) { long j = v - &arr.a[0]; __CPROVER_assert(0 <= j && j < 3, "[C11] SAFETY element matcher is only ever given a member of the range"); calls[k][j]++; return in_ans[k][j]; }
_Bool f__ZNK14vp_trompeloeil6vp_absILi1EE7matchesERKi(struct S_vp_abs_1 *self, int *v) { return abs_eval(1, v); }
_Bool f__ZNK14vp_trompeloeil6vp_absILi2EE7matchesERKi(struct S_vp_abs_2 *self, int *v) { return abs_eval(2, v); }
_Bool f__ZNK14vp_trompeloeil6vp_absILi3EE7matchesERKi(struct S_vp_abs_3 *self, int *v) { return abs_eval(3, v); }
#include "unit.c"
static void init(void) { for (int k = 1; k <= 3; k++) for (int j = 0; j < 3; j++) { in_ans[k][j] = nondet_bool(); calls[k][j] = 0; } for (int j = 0; j < 3; j++) { in_arr[j] = nondet_int(); arr.a[j] = in_arr[j]; } }
#define U(PM) PM##_T1 u; u.p = &arr;
#define ANY(k) (in_ans[k][0] || in_ans[k][1] || in_ans[k][2])
#define CNT(k) (in_ans[k][0] + in_ans[k][1] + in_ans[k][2])
#define OVERLAP(a, b) ((in_ans[a][0] && in_ans[b][0]) || (in_ans[a][1] && in_ans[b][1]) || (in_ans[a][2] && in_ans[b][2]))
void r_includes(void) { init(); U(RG_INC12) RG_INC12_T0 m12; RG_INC11_T0 m11;
  _Bool r12 = RG_INC12(&m12, &u);
  /* the documented first-fit assignment taken in range order (two listed elements: no ambiguity about the remaining order) */
  _Bool left1 = 1, left2 = 1;
  for (int j = 0; j < 3; j++) { if (left1 && in_ans[1][j]) left1 = 0; else if (left2 && in_ans[2][j]) left2 = 0; }
  __CPROVER_assert(r12 == (!left1 && !left2), "[C11] POST range_includes_overlapping_matchers_answer_is_the_first_fit_assignment_in_range_order");
  if (!OVERLAP(1, 2)) __CPROVER_assert(r12 == (ANY(1) && ANY(2)), "[C11] POST range_includes_accepts_iff_the_listed_elements_can_be_matched_to_distinct_members");
  for (int k = 1; k <= 2; k++) for (int j = 0; j < 3; j++) __CPROVER_assert(calls[k][j] <= 1, "[C11] POST range_includes_asks_each_listed_element_at_most_once_per_member");
  _Bool r11 = RG_INC11(&m11, &u);
  __CPROVER_assert(r11 == (CNT(1) >= 2), "[C11] POST range_includes_duplicate_listed_elements_need_distinct_members");
  __CPROVER_assert(0, "REACH! r_includes"); }
void r_includes_values(void) { init(); U(RG_INC_VALUES) RG_INC_VALUES_T0 m; int v0, v1; in_v[0] = v0 = nondet_int(); in_v[1] = v1 = nondet_int(); m.value._0 = v0; m.value._1 = v1;
  int c0 = (arr.a[0] == v0) + (arr.a[1] == v0) + (arr.a[2] == v0), c1 = (arr.a[0] == v1) + (arr.a[1] == v1) + (arr.a[2] == v1);
  _Bool r = RG_INC_VALUES(&m, &u);
  __CPROVER_assert(r == (v0 == v1 ? c0 >= 2 : (c0 >= 1 && c1 >= 1)), "[C11] POST range_includes_with_plain_values_counts_duplicates");
  __CPROVER_assert(0, "REACH! r_includes_values"); }
void r_permutation(void) { init(); U(RG_PERM123) RG_PERM123_T0 m3; RG_PERM12_T0 m2;
  _Bool r3 = RG_PERM123(&m3, &u);
  if (!OVERLAP(1, 2) && !OVERLAP(1, 3) && !OVERLAP(2, 3)) {
    _Bool every_member = (in_ans[1][0] || in_ans[2][0] || in_ans[3][0]) && (in_ans[1][1] || in_ans[2][1] || in_ans[3][1]) && (in_ans[1][2] || in_ans[2][2] || in_ans[3][2]);
    __CPROVER_assert(r3 == (every_member && ANY(1) && ANY(2) && ANY(3)), "[C11] POST range_is_permutation_accepts_iff_the_matching_uses_up_elements_and_range");
  }
  /* whatever the overlap: an accepted range has a perfect matching, and a range with a member nobody accepts is rejected */
  _Bool perfect = (in_ans[1][0] && in_ans[2][1] && in_ans[3][2]) || (in_ans[1][0] && in_ans[3][1] && in_ans[2][2]) || (in_ans[2][0] && in_ans[1][1] && in_ans[3][2])
               || (in_ans[2][0] && in_ans[3][1] && in_ans[1][2]) || (in_ans[3][0] && in_ans[1][1] && in_ans[2][2]) || (in_ans[3][0] && in_ans[2][1] && in_ans[1][2]);
  __CPROVER_assert(!r3 || perfect, "[C11] POST range_is_permutation_accepts_only_when_a_one_to_one_matching_exists");
  /* the first-fit assignment taken in range order, with the removal the anchored mechanism names (swap with the last, then drop it) */
  { int order[3] = {1, 2, 3}; int n = 3, j = 0;
    for (; j < 3; j++) { int f = -1; for (int i = 0; i < 3; i++) if (i < n && f < 0 && in_ans[order[i]][j]) f = i; if (f < 0) break; order[f] = order[n - 1]; n--; }
    __CPROVER_assert(r3 == (j == 3 && n == 0), "[C11] POST range_is_permutation_overlapping_matchers_answer_is_the_first_fit_assignment_in_range_order"); }
  _Bool r2 = RG_PERM12(&m2, &u);
  __CPROVER_assert(!r2, "[C11] POST range_is_permutation_rejects_a_range_longer_than_the_element_list");
  __CPROVER_assert(0, "REACH! r_permutation"); }
void r_permutation_values(void) { init(); U(RG_PERM_VALUES) RG_PERM_VALUES_T0 m; int v[3]; for (int i = 0; i < 3; i++) { in_v[i] = nondet_int(); v[i] = in_v[i]; }
  m.value._0 = v[0]; m.value._1 = v[1]; m.value._2 = v[2];
  int *a = arr.a;
  _Bool perm = (a[0] == v[0] && a[1] == v[1] && a[2] == v[2]) || (a[0] == v[0] && a[1] == v[2] && a[2] == v[1]) || (a[0] == v[1] && a[1] == v[0] && a[2] == v[2])
            || (a[0] == v[1] && a[1] == v[2] && a[2] == v[0]) || (a[0] == v[2] && a[1] == v[0] && a[2] == v[1]) || (a[0] == v[2] && a[1] == v[1] && a[2] == v[0]);
  _Bool r = RG_PERM_VALUES(&m, &u);
  __CPROVER_assert(r == perm, "[C11] POST range_is_permutation_with_plain_values_is_multiset_equality");
  __CPROVER_assert(0, "REACH! r_permutation_values"); }
int main(void) { VP_ENTRY(); return 0; }
