/* h_world.c - obligations over the symbolic world of one mock function (see world.h).
 * Entry selected by -DVP_ENTRY=<name>.  Assertion descriptions start with the property ids they decide. */
#ifndef VP_TOK_CAP
#define VP_TOK_CAP 1   /* these obligations do not look at message text: tokens beyond the first are dropped (overflow flag) */
#endif
#include "vp_models.h"
#include "unit.h"
#include "vp_models_impl.h"

static void ev(int kind, const void *obj, int result)
{
  if (vp_ev_n < VP_EV_CAP) { vp_ev[vp_ev_n].kind = kind; vp_ev[vp_ev_n].obj = obj; vp_ev[vp_ev_n].result = result; }
  vp_ev_n++;
}
/* ---- contract-only stubs of user-supplied clauses (DESIGN.md 6): pure w.r.t. library state, logged */
_Bool VS_COND_CHECK(struct COND *self, struct vp_tuple_vp_refw_int *p) { ev(VP_EV_COND, self, self->g_result); return self->g_result; }
char *VS_COND_NAME(struct COND *self) { return self->id; }
void VS_ACTION(struct SEFF *self, struct vp_tuple_vp_refw_int *p) { ev(VP_EV_ACTION, self, 0); if (self->g_throws) vp_exc = self->g_throws; }
int VS_RET_CALL(struct RETH *self, struct S_trace_agent *ta, struct vp_tuple_vp_refw_int *p) { ev(VP_EV_RET, self, 0); if (self->g_throws) vp_exc = self->g_throws; return self->g_value; }
void VS_TRACE(struct S_tracer *self, char *file, unsigned long line, struct vp_string *call)
{
  if (vp_tr_n < VP_LOG_CAP) { vp_tr[vp_tr_n].tracer = self; vp_tr[vp_tr_n].file = file; vp_tr[vp_tr_n].line = line;
#ifndef VP_NO_TEXT
    vp_tr[vp_tr_n].msg = *call;
#endif
  }
  vp_tr_n++;
}
/* destructors of user clause objects (dynamic types outside the library): base-class part only */
void VS_DTOR_COND(struct COND *self) { COND_DTOR(self); }
void VS_DTOR_SEFF(struct SEFF *self) { SEFF_DTOR(self); }
void VS_DTOR_RETH(struct RETH *self) { }
/* the user's RETURN / THROW expression inside the real return_handler_t::call */
int RETFN_CALL(struct RETFN *self, struct vp_tuple_vp_refw_int *p) { struct RETHT *h = (struct RETHT *)((char *)self - __builtin_offsetof(struct RETHT, func)); ev(VP_EV_RET, &h->_b0, 0); if (h->_b0.g_throws) vp_exc = h->_b0.g_throws; return h->_b0.g_value; }
/* dispatch defaults that no object of this world can reach */
#define UNREACHABLE_STUB(ret, name, params, retval) ret name params { __CPROVER_assert(0, "DISPATCH: virtual call on an object of unknown dynamic type"); __CPROVER_assume(0); return retval; }
UNREACHABLE_STUB(_Bool, VS_CMB_MATCHES, (struct CMB *self, struct vp_tuple_vp_refw_int *p), 0)
UNREACHABLE_STUB(unsigned, VS_CMB_COST, (struct CMB *self), 0)
UNREACHABLE_STUB(void, VS_CMB_RUN_ACTIONS, (struct CMB *self, struct vp_tuple_vp_refw_int *p, struct S_call_matcher_list_int_int *l), )
UNREACHABLE_STUB(int, VS_CMB_RETURN_VALUE, (struct CMB *self, struct S_trace_agent *ta, struct vp_tuple_vp_refw_int *p), 0)
UNREACHABLE_STUB(struct vp_os *, VS_CMB_REPORT_MISMATCH, (struct CMB *self, struct vp_os *os, struct vp_tuple_vp_refw_int *p), os)
UNREACHABLE_STUB(struct vp_os *, VS_CMB_REPORT_SIGNATURE, (struct CMB *self, struct vp_os *os), os)
UNREACHABLE_STUB(void, VS_CMB_MOCK_DESTROYED, (struct CMB *self), )
UNREACHABLE_STUB(_Bool, VS_SHB_CAN_BE_CALLED, (struct S_sequence_handler_base *self), 0)
UNREACHABLE_STUB(unsigned, VS_SHB_ORDER, (struct S_sequence_handler_base *self), 0)
UNREACHABLE_STUB(void, VS_SHB_RETIRE, (struct S_sequence_handler_base *self), )
UNREACHABLE_STUB(void, VS_SHB_RETIRE_PRED, (struct S_sequence_handler_base *self), )
UNREACHABLE_STUB(void, VS_SHB_VALIDATE, (struct S_sequence_handler_base *self, int s, char *n, struct S_location l), )
UNREACHABLE_STUB(void, VS_DTOR_SHB, (struct S_sequence_handler_base *self), )

#include "unit.c"
#include "world.h"

/* ================================================================== find(): the selection rule (C02) */
void w_find(void)
{
  build_world();
#ifdef VP_REPLAYABLE
  __CPROVER_assume(spec_constructible());
#endif
  int x = nondet_int();
  struct vp_tuple_vp_refw_int params; params._0.p = &x;
  struct CMB *r = FIND(&exps->active, &params);
  int c = spec_candidate();
  __CPROVER_assert((c < 0) == (r == 0), "[C01,C02] POST find.null_iff_no_live_unsaturated_match");
  __CPROVER_assert(c < 0 || r == CMB_OF(c), "[C02] POST find.lowest_cost_then_newest");
  for (int i = 0; i < N; i++) {
    __CPROVER_assert(hb[i]->call_count == in_cnt[i] && cm[i]->reported == in_reported[i], "[C02] FRAME find.changes_no_expectation");
  }
  __CPROVER_assert(vp_rep_n == 0 && vp_ok_n == 0 && vp_exc == 0, "[C02] FRAME find.reports_nothing");
  /* C08: the WITH clauses of each examined expectation are evaluated in declaration order and stop at the first
     that fails; expectations are examined newest first until one matches without passing over anything */
  int e = 0; _Bool done = 0;
  for (int i = 0; i < N; i++) if (in_where[i] == 0 && !done) {
    for (int k = 0; k < MAXC; k++) if (k < in_ncond[i]) {
      __CPROVER_assert(e < vp_ev_n && vp_ev[e].kind == VP_EV_COND && vp_ev[e].obj == cond[i][k], "[C08] POST find.with_clauses_evaluated_in_declaration_order");
      e++;
      if (!in_cres[i][k]) break;
    }
    if (spec_matches(i) && spec_cost(i) == 0) done = 1;
  }
  __CPROVER_assert(e == vp_ev_n, "[C08] POST find.with_clauses_stop_at_the_first_that_fails");
  __CPROVER_assert(!(c >= 0 && spec_cost(c) > 0 && spec_cost(c) != ~0U), "REACH find.passes_over_pending_predecessors");
  __CPROVER_assert(!(c >= 0 && c > 0 && in_where[0] == 0 && spec_matches(0)), "REACH find.older_beats_newer_match");
  __CPROVER_assert(c >= 0, "REACH find.no_match");
  __CPROVER_assert(0, "REACH! find.end");
}

/* ================================================================== mock_func(): one call (C01-C03,C05,C07,C08,C15,C16,C17) */
struct S_tracer *the_tracer;
void w_call(void)
{
  build_world();
#ifdef VP_REPLAYABLE
  __CPROVER_assume(spec_constructible());
#endif
  int x = nondet_int();
  _Bool tracing = nondet_bool();
  if (tracing) { the_tracer = VP_NEW(struct S_tracer); the_tracer->vp_tag = VP_TAG_USER_S_tracer; the_tracer->previous = 0; g_tracer_obj_ptr = the_tracer; }
  else g_tracer_obj_ptr = 0;
  int c = spec_candidate();
  unsigned ccost = c >= 0 ? spec_cost(c) : 0;
  _Bool forbidden = c >= 0 && in_max[c] == 0;
  _Bool accepted = c >= 0 && !forbidden && ccost != ~0U;
  int ret = MOCK_FUNC(exps, "f", "int(int)", &x);

  /* ---- rejected <=> exactly one fatal report, exception, no effect.  Same checks in the three cases, attributed to
     the properties that speak about that case: no candidate (C01), forbidding candidate (C01, C07), candidate not
     permitted by its sequences (C01, C05) */
  if (!accepted) {
#define REJECTED_CHECKS(T, CASE) \
    __CPROVER_assert(vp_rep_n == 1, "[" T "] POST call.rejected." CASE ".exactly_one_report"); \
    __CPROVER_assert(vp_rep_n < 1 || vp_rep[0].sev == 0, "[" T ",C15] POST call.rejected." CASE ".report_is_fatal"); \
    __CPROVER_assert(vp_exc == VP_EXC_VIOLATION, "[" T "] POST call.rejected." CASE ".does_not_return_normally"); \
    __CPROVER_assert(vp_ok_n == 0, "[C16] POST call.rejected." CASE ".no_ok_report"); \
    if (!tracing) __CPROVER_assert(vp_tr_n == 0, "[C17] POST call.rejected." CASE ".nothing_traced_without_tracer"); \
    for (int i = 0; i < N; i++) { \
      __CPROVER_assert(hb[i]->call_count == in_cnt[i], "[" T ",C03] FRAME call.rejected." CASE ".no_call_count_changes"); \
      __CPROVER_assert(in_ring_cm(SENT_ACTIVE, i) == (in_where[i] == 0) && in_ring_cm(SENT_SAT, i) == (in_where[i] == 1), "[" T "] FRAME call.rejected." CASE ".lists_unchanged"); \
      for (int k = 0; k < 2; k++) if (k < in_K[i]) \
        __CPROVER_assert(handle_linked(i, k) == in_linked[i][k], "[" T "] FRAME call.rejected." CASE ".sequences_unchanged"); \
    } \
    for (int e = 0; e < VP_EV_CAP; e++) if (e < vp_ev_n) \
      __CPROVER_assert(vp_ev[e].kind == VP_EV_COND, "[" T ",C08] FRAME call.rejected." CASE ".no_side_effect_or_return_evaluated");
    if (c < 0) { REJECTED_CHECKS("C01", "no_match") }
    else if (forbidden) { REJECTED_CHECKS("C01,C07", "forbidden") }
    else { REJECTED_CHECKS("C01,C05", "out_of_sequence") }
    if (forbidden) {
      __CPROVER_assert(vp_rep[0].file == nm_file[c] && vp_rep[0].line == 100 + c, "[C07,C15] POST call.forbidden.report_carries_the_forbidding_expectation_location");
      __CPROVER_assert(cm[c]->reported, "[C04,C07] POST call.forbidden.marked_reported");
    }
    if (c >= 0 && !forbidden) {
      __CPROVER_assert(vp_rep[0].file == nm_file[c] && vp_rep[0].line == 100 + c, "[C05,C15] POST call.out_of_sequence.report_carries_the_candidate_location");
    }
  } else {
    /* ---- accepted */
    __CPROVER_assert(vp_rep_n == 0, "[C01] POST call.accepted.no_violation_report");
    __CPROVER_assert(hb[c]->call_count == in_cnt[c] + 1, "[C02,C03] POST call.accepted.handler_count_incremented");
    for (int i = 0; i < N; i++) if (i != c) {
      __CPROVER_assert(hb[i]->call_count == in_cnt[i], "[C02] FRAME call.accepted.only_the_handler_count_changes");
      __CPROVER_assert(in_ring_cm(SENT_ACTIVE, i) == (in_where[i] == 0) && in_ring_cm(SENT_SAT, i) == (in_where[i] == 1), "[C02,C03] FRAME call.accepted.other_expectations_stay_in_their_list");
    }
    _Bool sat = in_cnt[c] + 1 == in_max[c];
    __CPROVER_assert(in_ring_cm(SENT_SAT, c) == sat && in_ring_cm(SENT_ACTIVE, c) == !sat, "[C03] POST call.accepted.saturated_iff_count_equals_max");
    if (sat) {
      for (int k = 0; k < 2; k++) if (k < in_K[c])
        __CPROVER_assert(!handle_linked(c, k), "[C05,C06] POST call.accepted.saturated_expectation_leaves_its_sequences");
    }
    /* C05: once it has matched, nothing registered before it in any of its sequences can match again */
    for (int k = 0; k < 2; k++) if (k < in_K[c]) {
      int s = seq_of(c, k);
      for (int j = c + 1; j < N; j++) for (int kk = 0; kk < 2; kk++) if (kk < in_K[j] && seq_of(j, kk) == s)
        __CPROVER_assert(!handle_linked(j, kk), "[C05] POST call.accepted.predecessors_retired");
    }
    /* handles that are neither the handler's nor registered before it in a shared sequence are untouched */
    for (int j = 0; j < N; j++) for (int kk = 0; kk < 2; kk++) if (kk < in_K[j] && j != c) {
      _Bool before = 0;
      for (int k = 0; k < 2; k++) if (k < in_K[c] && seq_of(c, k) == seq_of(j, kk) && j > c) before = 1;
      if (!before) __CPROVER_assert(handle_linked(j, kk) == in_linked[j][kk], "[C05] FRAME call.accepted.unrelated_sequence_handles_untouched");
    }
    if (!sat) for (int k = 0; k < 2; k++) if (k < in_K[c])
      __CPROVER_assert(handle_linked(c, k), "[C05] POST call.accepted.unsaturated_handler_stays_registered");
    /* C08: side effects once each in order, then the return handler once; a throwing clause stops the rest */
    int e = 0; _Bool threw = 0;
    for (int q = 0; q < VP_EV_CAP; q++) if (q < vp_ev_n && vp_ev[q].kind == VP_EV_COND) e = q + 1;   /* matching phase precedes */
    for (int a = 0; a < MAXA; a++) if (a < in_nact[c] && !threw) {
      __CPROVER_assert(e < vp_ev_n && vp_ev[e].kind == VP_EV_ACTION && vp_ev[e].obj == seff[c][a], "[C08] POST call.accepted.side_effects_once_in_declaration_order");
      e++; if (in_athrow[c][a]) threw = 1;
    }
    if (!threw && in_hasret[c]) {
      __CPROVER_assert(e < vp_ev_n && vp_ev[e].kind == VP_EV_RET && vp_ev[e].obj == reth[c], "[C08] POST call.accepted.return_evaluated_once_after_side_effects");
      e++; if (in_rthrow[c]) threw = 1;
      if (!threw) __CPROVER_assert(ret == in_rval[c], "[C08] POST call.accepted.caller_receives_the_handler_value");
    }
    __CPROVER_assert(e == vp_ev_n, "[C02,C08] POST call.accepted.no_other_clause_evaluated");
    __CPROVER_assert((vp_exc != 0) == threw, "[C01,C08] POST call.accepted.throws_iff_a_clause_threw");
    if (threw) __CPROVER_assert(vp_exc == VP_EXC_USER_STD || vp_exc == VP_EXC_USER_OTHER, "[C08] POST call.accepted.caller_receives_that_exception");
    if (threw) {   /* C08: "a call that throws - from THROW or from a side effect - still counts as handled": counted, saturated, and its sequences moved on */
      _Bool handled = hb[c]->call_count == in_cnt[c] + 1 && in_ring_cm(SENT_SAT, c) == sat;
      for (int k = 0; k < 2; k++) if (k < in_K[c]) {
        int s = seq_of(c, k);
        if (sat && handle_linked(c, k)) handled = 0;
        for (int j = c + 1; j < N; j++) for (int kk = 0; kk < 2; kk++) if (kk < in_K[j] && seq_of(j, kk) == s && handle_linked(j, kk)) handled = 0;
      }
      __CPROVER_assert(handled, "[C08] POST call.accepted.a_call_that_throws_still_counts_as_handled_and_its_sequences_move_on");
    }
    /* C16: exactly one OK report naming the handler */
    __CPROVER_assert(vp_ok_n == 1, "[C16] POST call.accepted.exactly_one_ok_report");
    __CPROVER_assert(vp_ok_n < 1 || vp_ok[0].msg == nm_name[c], "[C16] POST call.accepted.ok_report_names_the_handler");
    /* C17 */
    __CPROVER_assert(vp_tr_n == (tracing ? 1 : 0), "[C17] POST call.accepted.one_trace_record_iff_tracer_alive");
    if (tracing) __CPROVER_assert(vp_tr[0].tracer == the_tracer && vp_tr[0].file == nm_file[c] && vp_tr[0].line == 100 + c, "[C17] POST call.accepted.trace_goes_to_the_tracer_with_handler_location");
  }
  __CPROVER_assert(vp_lock_depth == 0, "[C14] POST call.lock_released");
  __CPROVER_assert(ring_ok_cm(SENT_ACTIVE) && ring_ok_cm(SENT_SAT) && ring_ok_seq(0) && ring_ok_seq(1), "[C14] POST call.rings_well_formed");
  __CPROVER_assert(!accepted, "REACH call.accepted");
  __CPROVER_assert(!(c < 0), "REACH call.no_match");
  __CPROVER_assert(!forbidden, "REACH call.forbidden");
  __CPROVER_assert(!(c >= 0 && !forbidden && !accepted), "REACH call.out_of_sequence");
  __CPROVER_assert(!(accepted && in_cnt[c] + 1 == in_max[c] && in_K[c] >= 1), "REACH call.saturating_in_a_sequence");
  __CPROVER_assert(0, "REACH! call.end");
}


/* ================================================================== end of an expectation's lifetime (C04, C06, C14, C15) */
#ifndef W_T
#define W_T 0
#endif
static void snapshot_check_others(int t, const char *unused)
{
  for (int i = 0; i < N; i++) if (i != t) {
    __CPROVER_assert(hb[i]->call_count == in_cnt[i] && hb[i]->min_calls == in_min[i] && hb[i]->max_calls == in_max[i], "[C04,C14] FRAME other_expectations_keep_their_counts");
    __CPROVER_assert(in_ring_cm(SENT_ACTIVE, i) == (in_where[i] == 0) && in_ring_cm(SENT_SAT, i) == (in_where[i] == 1), "[C04,C14] FRAME other_expectations_stay_in_their_list");
    for (int k = 0; k < 2; k++) if (k < in_K[i])
      __CPROVER_assert(handle_linked(i, k) == in_linked[i][k], "[C06,C14] FRAME other_sequence_handles_untouched");
  }
}
void w_dtor(void)
{
  build_world();
#ifdef VP_REPLAYABLE
  __CPROVER_assume(spec_constructible());
#endif
  const int t = W_T;
  _Bool unfulfilled = !in_reported[t] && in_where[t] != 2 && in_cnt[t] < in_min[t];
  CM_DTOR(cm[t]);
  __CPROVER_assert(vp_rep_n == (unfulfilled ? 1 : 0), "[C04] POST dtor.one_report_iff_linked_unreported_and_below_lower_bound");
  if (vp_rep_n >= 1) {
    __CPROVER_assert(vp_rep[0].sev == 1, "[C04,C15] POST dtor.report_is_nonfatal");
    __CPROVER_assert(vp_rep[0].file == nm_file[t] && vp_rep[0].line == 100 + t, "[C04,C15] POST dtor.report_carries_the_expectation_location");
  }
  __CPROVER_assert(vp_exc == 0 && !vp_terminated, "[C15] POST dtor.does_not_throw");
  __CPROVER_assert(!in_ring_cm(SENT_ACTIVE, t) && !in_ring_cm(SENT_SAT, t), "[C04,C14] POST dtor.expectation_left_its_list");
  for (int k = 0; k < 2; k++) if (k < in_K[t]) {
    int s = seq_of(t, k); struct S_list_elem_sequence_matcher *sent = SEQ_SENT(s), *p = sent->next;
    for (int n = 0; n <= N; n++) { if (p == sent) break; __CPROVER_assert(p != &handle(t, k)->_b0, "[C06,C14] POST dtor.expectation_left_its_sequences"); p = p->next; }
  }
  snapshot_check_others(t, "");
  __CPROVER_assert(ring_ok_cm(SENT_ACTIVE) && ring_ok_cm(SENT_SAT) && ring_ok_seq(0) && ring_ok_seq(1), "[C14] POST dtor.rings_well_formed");
  __CPROVER_assert(vp_lock_depth == 0, "[C14] POST dtor.lock_released");
  /* the object is gone: whatever is still alive must keep working (C14) */
  free(cm[t]);
  int x = nondet_int(); struct vp_tuple_vp_refw_int params; params._0.p = &x;
  struct CMB *r = FIND(&exps->active, &params);
  _Bool c0 = IS_COMPLETED(seq[0]);
  __CPROVER_assert(r != CMB_OF(t), "[C01,C14] POST dtor.dead_expectation_is_never_selected_again");
  /* C06: is_completed() <=> every handle still registered has reached its lower bound */
  _Bool spec_c0 = 1;
  for (int i = 0; i < N; i++) for (int k = 0; k < 2; k++)
    if (i != t && k < in_K[i] && seq_of(i, k) == 0 && in_linked[i][k] && !spec_satisfied(i)) spec_c0 = 0;
  __CPROVER_assert(c0 == spec_c0, "[C06] POST dtor.is_completed_ignores_the_released_expectation");
  __CPROVER_assert(!unfulfilled, "REACH dtor.unfulfilled");
  __CPROVER_assert(!(in_K[t] >= 1 && in_linked[t][0]), "REACH dtor.registered_in_a_sequence");
  __CPROVER_assert(0, "REACH! dtor.end");
}

/* ================================================================== a rejected call, then an expectation's lifetime ends (C04 after C01/C05/C07) */
void w_call_then_dtor(void)
{
  build_world();
  int x = nondet_int(); g_tracer_obj_ptr = 0;
  int c = spec_candidate();
  __CPROVER_assume(c >= 0);                                   /* the no-match listing marks what it names: covered by world.text.no_match_listing */
  unsigned ccost = spec_cost(c);
  _Bool forbidden = in_max[c] == 0;
  __CPROVER_assume(forbidden || ccost == ~0U);                /* rejected: forbidding candidate, or candidate not permitted by its sequences */
  (void)MOCK_FUNC(exps, "f", "int(int)", &x);
  __CPROVER_assert(vp_exc == VP_EXC_VIOLATION && vp_rep_n == 1, "[C01] POST call_then_dtor.the_call_is_rejected_with_one_report");
  vp_exc = 0;                                                  /* the test catches the reporter's exception and goes on */
  const int t = W_T;
  _Bool named = in_reported[t] || (forbidden && t == c);       /* a forbidden-call report names the forbidding expectation */
  _Bool unfulfilled = !named && in_where[t] != 2 && in_cnt[t] < in_min[t];
  CM_DTOR(cm[t]);
  __CPROVER_assert(vp_rep_n == 1 + (unfulfilled ? 1 : 0), "[C04] POST call_then_dtor.a_rejected_call_is_not_counted_towards_the_lower_bound");
  if (vp_rep_n >= 2) __CPROVER_assert(vp_rep[1].sev == 1 && vp_rep[1].file == nm_file[t] && vp_rep[1].line == 100 + t, "[C04,C15] POST call_then_dtor.report_is_nonfatal_with_the_expectation_location");
  __CPROVER_assert(vp_exc == 0 && !vp_terminated, "[C15] POST call_then_dtor.does_not_throw");
  __CPROVER_assert(!in_ring_cm(SENT_ACTIVE, t) && !in_ring_cm(SENT_SAT, t), "[C04,C14] POST call_then_dtor.expectation_left_its_list");
  __CPROVER_assert(ring_ok_cm(SENT_ACTIVE) && ring_ok_cm(SENT_SAT) && ring_ok_seq(0) && ring_ok_seq(1), "[C14] POST call_then_dtor.rings_well_formed");
  __CPROVER_assert(!(unfulfilled && t == c && !forbidden), "REACH call_then_dtor.out_of_sequence_candidate_unfulfilled");
  __CPROVER_assert(!(forbidden && t == c), "REACH call_then_dtor.forbidding_candidate_released");
  __CPROVER_assert(0, "REACH! call_then_dtor.end");
}

/* ================================================================== the mock object dies first (C04, C14, C15) */
void w_mockdtor(void)
{
  build_world();
#ifdef VP_REPLAYABLE
  __CPROVER_assume(spec_constructible());
#endif
  int expected = 0;
  for (int i = 0; i < N; i++) if (in_where[i] != 2 && !in_reported[i] && in_cnt[i] < in_min[i]) expected++;
  EXPS_DTOR(exps);
  __CPROVER_assert(vp_rep_n == expected, "[C04] POST mockdtor.one_report_per_pending_unreported_expectation");
  for (int q = 0; q < VP_LOG_CAP; q++) if (q < vp_rep_n) __CPROVER_assert(vp_rep[q].sev == 1, "[C04,C15] POST mockdtor.reports_are_nonfatal");
  /* each pending unreported expectation is named by exactly one report carrying its location (any order) */
  for (int i = 0; i < N; i++) {
    int hits = 0;
    for (int q = 0; q < VP_LOG_CAP; q++) if (q < vp_rep_n && vp_rep[q].file == nm_file[i] && vp_rep[q].line == 100 + i) hits++;
    __CPROVER_assert(hits == ((in_where[i] != 2 && !in_reported[i] && in_cnt[i] < in_min[i]) ? 1 : 0), "[C04,C15] POST mockdtor.exactly_one_report_with_its_location_per_pending_expectation");
  }
  __CPROVER_assert(vp_exc == 0 && !vp_terminated, "[C15] POST mockdtor.does_not_throw");
  for (int i = 0; i < N; i++) {
    __CPROVER_assert(cm[i]->_b0._b0.next == LE_OF(i) && cm[i]->_b0._b0.prev == LE_OF(i), "[C04,C14] POST mockdtor.every_expectation_unlinked");
    __CPROVER_assert(hb[i]->call_count == in_cnt[i], "[C04] FRAME mockdtor.counts_unchanged");
    for (int k = 0; k < 2; k++) if (k < in_K[i]) __CPROVER_assert(handle_linked(i, k) == in_linked[i][k], "[C06] FRAME mockdtor.sequence_registrations_unchanged");
  }
  __CPROVER_assert(ring_ok_seq(0) && ring_ok_seq(1), "[C14] POST mockdtor.rings_well_formed");
  free(exps);
  /* ... and the expectation objects are released later: no shortfall is reported twice, nothing touches the dead mock */
  int before = vp_rep_n;
  for (int i = 0; i < N; i++) { CM_DTOR(cm[i]); free(cm[i]); }
  __CPROVER_assert(vp_rep_n == before, "[C04] POST mockdtor.no_second_report_when_the_expectation_is_released_later");
  __CPROVER_assert(vp_exc == 0 && !vp_terminated && vp_lock_depth == 0, "[C14,C15] POST mockdtor.late_release_is_quiet");
  __CPROVER_assert(expected == 0, "REACH mockdtor.pending");
  __CPROVER_assert(0, "REACH! mockdtor.end");
}

/* ================================================================== a sequence object dies (C06, C14, C15) */
void w_seqdtor(void)
{
  build_world();
#ifdef VP_REPLAYABLE
  __CPROVER_assume(spec_constructible());
#endif
  int pending = 0;
  for (int i = 0; i < N; i++) for (int k = 0; k < 2; k++) if (k < in_K[i] && seq_of(i, k) == 0 && in_linked[i][k]) pending++;
  ST_DTOR(seq[0]);
  __CPROVER_assert(vp_rep_n == (pending > 0 ? 1 : 0), "[C06] POST seqdtor.one_report_iff_expectations_still_registered");
  if (vp_rep_n >= 1) __CPROVER_assert(vp_rep[0].sev == 1, "[C06,C15] POST seqdtor.report_is_nonfatal");
  __CPROVER_assert(vp_exc == 0 && !vp_terminated, "[C15] POST seqdtor.does_not_throw");
  for (int i = 0; i < N; i++) for (int k = 0; k < 2; k++) if (k < in_K[i]) {
    if (seq_of(i, k) == 0) __CPROVER_assert(!handle_linked(i, k), "[C06,C14] POST seqdtor.every_registration_removed");
    else __CPROVER_assert(handle_linked(i, k) == in_linked[i][k], "[C06] FRAME seqdtor.other_sequence_untouched");
  }
  for (int i = 0; i < N; i++) __CPROVER_assert(hb[i]->call_count == in_cnt[i] && cm[i]->reported == in_reported[i], "[C06] FRAME seqdtor.expectations_unchanged");
  __CPROVER_assert(pending == 0, "REACH seqdtor.pending");
  __CPROVER_assert(0, "REACH! seqdtor.end");
}
/* ... and calls continue on what is still alive (C14) */
void w_seqdtor_then_call(void)
{
  build_world();
  ST_DTOR(seq[0]);
  free(seq_host[0]);
  int x = nondet_int();
  g_tracer_obj_ptr = 0;
  vp_rep_n = 0;
  int ret = MOCK_FUNC(exps, "f", "int(int)", &x);
  __CPROVER_assert(vp_lock_depth == 0, "[C14] POST seqdtor_then_call.lock_released");
  __CPROVER_assert(0, "REACH! seqdtor_then_call.end");
}

/* ================================================================== queries (C03, C06) */
void w_queries(void)
{
  build_world();
  for (int i = 0; i < N; i++) {
    _Bool sat = CM_IS_SATISFIED(cm[i]), satu = CM_IS_SATURATED(cm[i]);
    __CPROVER_assert(sat == (in_cnt[i] >= in_min[i]), "[C03] POST query.is_satisfied_iff_count_at_least_min");
    __CPROVER_assert(satu == (in_cnt[i] == in_max[i]), "[C03] POST query.is_saturated_iff_count_equals_max");
    if (in_max[i] == 0) __CPROVER_assert(sat && satu, "[C07] POST query.forbidding_expectation_is_satisfied_and_saturated");
  }
  for (int s = 0; s < NSEQ; s++) {
    _Bool c = IS_COMPLETED(seq[s]);
    _Bool spec = 1;
    for (int i = 0; i < N; i++) for (int k = 0; k < 2; k++)
      if (k < in_K[i] && seq_of(i, k) == s && in_linked[i][k] && !spec_satisfied(i)) spec = 0;
    __CPROVER_assert(c == spec, "[C06] POST query.is_completed_iff_every_pending_expectation_reached_its_lower_bound");
  }
  for (int i = 0; i < N; i++) __CPROVER_assert(hb[i]->call_count == in_cnt[i], "[C03] FRAME query.changes_nothing");
  __CPROVER_assert(vp_rep_n == 0 && vp_exc == 0 && vp_lock_depth == 0, "[C03,C06] FRAME query.reports_nothing");
  __CPROVER_assert(0, "REACH! queries.end");
}

/* ================================================================== report TEXT (C04, C15, C17): compiled with VP_TOK_CAP=24 */
#if VP_TOK_CAP >= 24
static _Bool is_marker(const void *p)
{
  for (int i = 0; i < N; i++) { if (p == nm_name[i]) return 1; for (int c = 0; c < MAXC; c++) if (p == nm_cond[i][c]) return 1; }
  return 0;
}
/* a no-match report lists either every saturated expectation that would have matched, or else every live
 * expectation newest first, each with its first failing WITH clause (parameters always fit: wildcard) */
void w_nomatch_text(void)
{
  build_world();
  int x = nondet_int();
  g_tracer_obj_ptr = 0;
  int c = spec_candidate();
  __CPROVER_assume(c < 0);
  int ret = MOCK_FUNC(exps, nm_func, nm_sig, &x);
  __CPROVER_assert(vp_rep_n == 1 && vp_rep[0].sev == 0, "[C15] POST nomatch.one_fatal_report");
  const struct vp_string *m = &vp_rep[0].msg;
  __CPROVER_assert(!m->overflow, "[C15] MODEL token capacity sufficient");
  /* expected listing */
  const void *exp[N * 2 + 1]; int ne = 0; _Bool sat_match = 0;
  for (int i = 0; i < N; i++) if (in_where[i] == 1 && spec_matches(i)) { exp[ne++] = nm_name[i]; sat_match = 1; }
  if (!sat_match)
    for (int i = 0; i < N; i++) if (in_where[i] == 0) {
      exp[ne++] = nm_name[i];
      for (int k = 0; k < MAXC; k++) if (k < in_ncond[i] && !in_cres[i][k]) { exp[ne++] = nm_cond[i][k]; break; }
    }
  int seen = 0; _Bool ok = 1; int n_int = 0; long ints[2]; _Bool func_named = 0;
  for (int k = 0; k < VP_TOK_CAP; k++) if (k < m->n) {
    if (m->t[k].kind == VP_T_CSTR && is_marker(m->t[k].p)) {
      if (sat_match) { _Bool in_exp = 0; for (int q = 0; q < N * 2 + 1; q++) if (q < ne && exp[q] == m->t[k].p) in_exp = 1; if (!in_exp) ok = 0; }   /* saturated matches: any order */
      else if (seen >= ne || exp[seen] != m->t[k].p) ok = 0;                                                                                          /* live ones: newest first */
      seen++;
    }
    if (m->t[k].kind == VP_T_INT) { if (n_int < 2) ints[n_int] = (long)m->t[k].v; n_int++; }
    if (m->t[k].kind == VP_T_CSTR && m->t[k].p == nm_func) func_named = 1;
  }
  if (sat_match) for (int q = 0; q < N * 2 + 1; q++) if (q < ne) { int hits = 0; for (int k = 0; k < VP_TOK_CAP; k++) if (k < m->n && m->t[k].kind == VP_T_CSTR && m->t[k].p == exp[q]) hits++; if (hits != 1) ok = 0; }
  __CPROVER_assert(ok && seen == ne, "[C15] POST nomatch.lists_matching_saturated_else_every_live_expectation_newest_first_with_first_failing_WITH");
  __CPROVER_assert(func_named, "[C15] POST nomatch.names_the_function");
  __CPROVER_assert(n_int == 2 && ints[0] == 1 && ints[1] == (long)x, "[C15] POST nomatch.prints_every_actual_argument");
  for (int i = 0; i < N; i++) if (!sat_match && in_where[i] == 0) __CPROVER_assert(cm[i]->reported, "[C04,C15] POST nomatch.listed_expectations_are_marked_reported");
  /* ... and only those: an expectation the report does not name keeps its flag, else its shortfall would never be reported (C04) */
  for (int i = 0; i < N; i++) if (sat_match ? in_where[i] != 1 : in_where[i] != 0) __CPROVER_assert(cm[i]->reported == in_reported[i], "[C04] POST nomatch.an_expectation_the_report_does_not_name_is_not_marked_as_reported");
  /* C08: the WITH clauses of an expectation stop at the first that fails - also while the report is being put together */
  __CPROVER_assert(vp_ev_n <= VP_EV_CAP, "[C08] MODEL event log capacity sufficient");
  for (int i = 0; i < N; i++) {
    int ff = MAXC; for (int k = MAXC - 1; k >= 0; k--) if (k < in_ncond[i] && !in_cres[i][k]) ff = k;     /* first failing clause */
    for (int k = 0; k < MAXC; k++) if (k < in_ncond[i] && k > ff)
      for (int e = 0; e < VP_EV_CAP; e++) if (e < vp_ev_n)
        __CPROVER_assert(!(vp_ev[e].kind == VP_EV_COND && vp_ev[e].obj == cond[i][k]), "[C08] POST nomatch.no_WITH_clause_behind_a_failing_one_is_evaluated_not_even_for_the_report");
  }
  __CPROVER_assert(!sat_match, "REACH nomatch.saturated_listing");
  __CPROVER_assert(!(ne >= 3), "REACH nomatch.listing_with_failed_with");
  __CPROVER_assert(0, "REACH! nomatch.end");
}

/* the forbidden-call report: fatal, the forbidding expectation's location and text, every ACTUAL argument of the call */
int in_argx;
void w_forbidden_text(void)
{
  build_world();
  int x = nondet_int(); in_argx = x;
  int c = spec_candidate();
  __CPROVER_assume(c >= 0 && in_max[c] == 0);
  (void)MOCK_FUNC(exps, nm_func, nm_sig, &x);
  __CPROVER_assert(vp_rep_n == 1 && vp_rep[0].sev == 0 && vp_rep[0].file == nm_file[c] && vp_rep[0].line == 100 + c, "[C07,C15] POST forbidden_text.one_fatal_report_with_the_forbidding_expectation_location");
  const struct vp_string *m = &vp_rep[0].msg;
  __CPROVER_assert(!m->overflow, "[C15] MODEL token capacity sufficient");
  int n_int = 0; long ints[2]; _Bool named = 0;
  for (int k = 0; k < VP_TOK_CAP; k++) if (k < m->n) {
    if (m->t[k].kind == VP_T_INT) { if (n_int < 2) ints[n_int] = (long)m->t[k].v; n_int++; }
    if (m->t[k].kind == VP_T_CSTR && m->t[k].p == nm_name[c]) named = 1;
  }
  __CPROVER_assert(named, "[C07,C15] POST forbidden_text.report_carries_the_forbidding_expectation_text");
  __CPROVER_assert(n_int == 2 && ints[0] == 1 && ints[1] == (long)x, "[C07,C15] POST forbidden_text.prints_every_actual_argument");
  __CPROVER_assert(0, "REACH! forbidden_text.end");
}

/* destroying a sequence object reports exactly the expectations still registered in it, in registration order */
void w_seqdtor_text(void)
{
  build_world();
  ST_DTOR(seq[0]);
  const void *exp[N]; int ne = 0;
  for (int i = N - 1; i >= 0; i--) for (int k = 0; k < 2; k++) if (k < in_K[i] && seq_of(i, k) == 0 && in_linked[i][k]) exp[ne++] = nm_name[i];
  __CPROVER_assert(vp_rep_n == (ne > 0 ? 1 : 0), "[C06] POST seqdtor.one_report_iff_expectations_still_registered");
  if (ne > 0) {
    const struct vp_string *m = &vp_rep[0].msg;
    __CPROVER_assert(!m->overflow, "[C06] MODEL token capacity sufficient");
    int seen = 0; _Bool ok = 1;
    for (int k = 0; k < VP_TOK_CAP; k++) if (k < m->n && m->t[k].kind == VP_T_CSTR && is_marker(m->t[k].p)) { if (seen >= ne || exp[seen] != m->t[k].p) ok = 0; seen++; }
    __CPROVER_assert(ok && seen == ne, "[C06,C15] POST seqdtor.lists_exactly_the_registered_expectations_in_registration_order");
    __CPROVER_assert(m->n >= 1 && m->t[0].kind == VP_T_CSTR && m->t[0].p == nm_seq[0], "[C06,C15] POST seqdtor.names_the_sequence");
  }
  __CPROVER_assert(ne < 2, "REACH seqdtor_text.two_registered");
  __CPROVER_assert(0, "REACH! seqdtor_text.end");
}

/* the end-of-life report gives the expectation's text and the required and actual counts */
void w_unfulfilled_text(void)
{
  build_world();
  const int t = W_T;
  __CPROVER_assume(!in_reported[t] && in_where[t] != 2 && in_cnt[t] < in_min[t]);
  CM_DTOR(cm[t]);
  __CPROVER_assert(vp_rep_n == 1 && vp_rep[0].sev == 1 && vp_rep[0].file == nm_file[t] && vp_rep[0].line == 100 + t, "[C04,C15] POST unfulfilled.one_nonfatal_report_with_location");
  const struct vp_string *m = &vp_rep[0].msg;
  __CPROVER_assert(!m->overflow, "[C04] MODEL token capacity sufficient");
  unsigned long exp[2]; int ne = 0;
  if (in_min[t] != 1) exp[ne++] = in_min[t];
  if (in_cnt[t] >= 2) exp[ne++] = in_cnt[t];
  int seen = 0; _Bool ok = 1; _Bool named = 0;
  for (int k = 0; k < VP_TOK_CAP; k++) if (k < m->n) {
    if (m->t[k].kind == VP_T_ULONG) { if (seen >= ne || exp[seen] != m->t[k].v) ok = 0; seen++; }
    if (m->t[k].kind == VP_T_CSTR && m->t[k].p == nm_name[t]) named = 1;
  }
  __CPROVER_assert(named, "[C04,C15] POST unfulfilled.report_carries_the_expectation_text");
  __CPROVER_assert(ok && seen == ne, "[C04] POST unfulfilled.report_gives_required_and_actual_counts");
  __CPROVER_assert(0, "REACH! unfulfilled_text.end");
}

/* the trace record of an accepted call: expectation text, arguments, then the value or the exception note */
void w_trace_text(void)
{
  build_world();
  int x = nondet_int();
  the_tracer = VP_NEW(struct S_tracer); the_tracer->vp_tag = VP_TAG_USER_S_tracer; the_tracer->previous = 0; g_tracer_obj_ptr = the_tracer;
  int c = spec_candidate();
  __CPROVER_assume(c >= 0 && in_max[c] != 0 && spec_cost(c) != ~0U);
  int ret = MOCK_FUNC(exps, nm_func, nm_sig, &x);
  __CPROVER_assert(vp_tr_n == 1 && vp_tr[0].tracer == the_tracer && vp_tr[0].file == nm_file[c] && vp_tr[0].line == 100 + c, "[C17] POST trace.one_record_to_the_tracer_with_handler_location");
  const struct vp_string *m = &vp_tr[0].msg;
  __CPROVER_assert(!m->overflow, "[C17] MODEL token capacity sufficient");
  int thrown = 0;
  for (int a = 0; a < MAXA; a++) if (a < in_nact[c] && !thrown && in_athrow[c][a]) thrown = in_athrow[c][a];
  if (!thrown && in_rthrow[c]) thrown = in_rthrow[c];
  int n_int = 0; long ints[3]; _Bool what = 0; int after = 0; int arg_pos = -1;
  for (int k = 0; k < VP_TOK_CAP; k++) if (k < m->n) {
    if (m->t[k].kind == VP_T_INT) { if (n_int < 3) ints[n_int] = (long)m->t[k].v; if (n_int == 1) arg_pos = k; n_int++; }
    if (m->t[k].kind == VP_T_CSTR && m->t[k].p == (void *)&vp_stdexc_obj) what = 1;
  }
  __CPROVER_assert(m->n >= 1 && m->t[0].kind == VP_T_CSTR && m->t[0].p == nm_name[c], "[C17] POST trace.record_starts_with_the_handling_expectation_text");
  __CPROVER_assert(n_int >= 2 && ints[0] == 1 && ints[1] == (long)x, "[C17] POST trace.record_carries_the_actual_arguments");
  /* m->lit: the last string literal of the library text in the record; only the word the property itself uses is looked for */
  if (!thrown) __CPROVER_assert(n_int == 3 && ints[2] == (long)ret && !what, "[C17] POST trace.record_carries_the_returned_value");
  if (thrown == VP_EXC_USER_STD) __CPROVER_assert(n_int == 2 && what, "[C17] POST trace.record_carries_what_of_a_std_exception");
  if (thrown == VP_EXC_USER_OTHER) __CPROVER_assert(n_int == 2 && !what && vp_lit_has(m->lit, "unknown"), "[C17] POST trace.non_std_exception_is_noted_as_unknown");
  __CPROVER_assert(thrown != VP_EXC_USER_STD, "REACH trace.std_exception"); __CPROVER_assert(thrown != VP_EXC_USER_OTHER, "REACH trace.unknown_exception");
  __CPROVER_assert(0, "REACH! trace_text.end");
}
#endif

int main(void) { VP_ENTRY(); return 0; }
