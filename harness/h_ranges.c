/* h_ranges.c - range matchers over a C array of length 3 (C11, PARTIAL and BOUNDED): element matchers are abstract
 * operands vp_abs<K> whose answer is a free boolean per (K, element position). */
#define VP_TOK_CAP 1
#include "vp_models.h"
#include "unit.h"
#include "vp_models_impl.h"
int nondet_int(void); _Bool nondet_bool(void);
struct vp_carr_int_3 arr; int in_arr[3]; int in_v[3];
_Bool in_ans[4][3]; int calls[4][3];
static _Bool abs_eval(int k, int *v) { long j = v - &arr.a[0]; __CPROVER_assert(0 <= j && j < 3, "[C11] SAFETY element matcher is only ever given a member of the range"); calls[k][j]++; return in_ans[k][j]; }
_Bool f__ZNK14vp_trompeloeil6vp_absILi1EE7matchesERKi(struct S_vp_abs_1 *self, int *v) { return abs_eval(1, v); }
_Bool f__ZNK14vp_trompeloeil6vp_absILi2EE7matchesERKi(struct S_vp_abs_2 *self, int *v) { return abs_eval(2, v); }
_Bool f__ZNK14vp_trompeloeil6vp_absILi3EE7matchesERKi(struct S_vp_abs_3 *self, int *v) { return abs_eval(3, v); }
#include "unit.c"
static void init(void) { for (int k = 1; k <= 3; k++) for (int j = 0; j < 3; j++) { in_ans[k][j] = nondet_bool(); calls[k][j] = 0; } for (int j = 0; j < 3; j++) { in_arr[j] = nondet_int(); arr.a[j] = in_arr[j]; } }
#define U(PM) PM##_T1 u; u.p = &arr;
void r_is(void) { init(); U(RG_IS3) RG_IS3_T0 m3; RG_IS2_T0 m2;
  __CPROVER_assert(RG_IS3(&m3, &u) == (in_ans[1][0] && in_ans[2][1] && in_ans[3][2]), "[C11] POST range_is_accepts_exactly_equal_length_element_wise_matches");
  __CPROVER_assert(RG_IS2(&m2, &u) == 0, "[C11] POST range_is_rejects_a_longer_range");
  __CPROVER_assert(0, "REACH! r_is"); }
void r_is_values(void) { init(); U(RG_IS_VALUES) RG_IS_VALUES_T0 m; int v0, v1, v2; in_v[0] = v0 = nondet_int(); in_v[1] = v1 = nondet_int(); in_v[2] = v2 = nondet_int(); m.value._0 = v0; m.value._1 = v1; m.value._2 = v2;
  __CPROVER_assert(RG_IS_VALUES(&m, &u) == (arr.a[0] == v0 && arr.a[1] == v1 && arr.a[2] == v2), "[C11] POST range_is_with_plain_values_compares_element_wise");
  __CPROVER_assert(0, "REACH! r_is_values"); }
void r_starts_ends(void) { init(); U(RG_STARTS2) RG_STARTS2_T0 s; RG_ENDS2_T0 e; RG_STARTS3_T0 s3; RG_ENDS3_T0 e3;
  __CPROVER_assert(RG_STARTS3(&s3, &u) == (in_ans[1][0] && in_ans[2][1] && in_ans[3][2]), "[C11] POST range_starts_with_accepts_a_range_of_exactly_the_listed_length");
  __CPROVER_assert(RG_ENDS3(&e3, &u) == (in_ans[1][0] && in_ans[2][1] && in_ans[3][2]), "[C11] POST range_ends_with_accepts_a_range_of_exactly_the_listed_length");
  __CPROVER_assert(RG_STARTS2(&s, &u) == (in_ans[1][0] && in_ans[2][1]), "[C11] POST range_starts_with_accepts_exactly_prefix_matches");
  __CPROVER_assert(RG_ENDS2(&e, &u) == (in_ans[1][1] && in_ans[2][2]), "[C11] POST range_ends_with_accepts_exactly_suffix_matches");
  __CPROVER_assert(0, "REACH! r_starts_ends"); }
void r_all_any_none(void) { init(); U(RG_ALL) RG_ALL_T0 a; RG_ANY_T0 y; RG_NONE_T0 n;
  _Bool all = in_ans[1][0] && in_ans[1][1] && in_ans[1][2], any = in_ans[1][0] || in_ans[1][1] || in_ans[1][2];
  __CPROVER_assert(RG_ALL(&a, &u) == all, "[C11] POST range_all_of_accepts_iff_every_member_is_accepted");
  __CPROVER_assert(RG_ANY(&y, &u) == any, "[C11] POST range_any_of_accepts_iff_some_member_is_accepted");
  __CPROVER_assert(RG_NONE(&n, &u) == !any, "[C11] POST range_none_of_accepts_iff_no_member_is_accepted");
  __CPROVER_assert(0, "REACH! r_all_any_none"); }
int main(void) { VP_ENTRY(); return 0; }
