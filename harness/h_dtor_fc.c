/* h_dtor_fc.c - the end-of-lifetime decision of an expectation as UNBOUNDED loop-free obligations (C04, C14, C15):
 * the user-written body of ~call_matcher() and call_matcher::mock_destroyed(), both loop-free, on an expectation in every state
 * (free bounds, count, reported flag) and every alias shape of its position in a list: not linked / only element next to the
 * sentinel / between two distinct neighbours - the three shapes are exhaustive for what unlink() and is_linked() touch, so the
 * result holds for lists of any length.  Real code: is_unfulfilled, report_missed, report_unfulfilled, params_string,
 * send_report, unlink, the lock.  The destructors of the members (clause lists) are not part of the body (dtor_is.*, world.dtor.*). */
#ifndef VP_TOK_CAP
#define VP_TOK_CAP 12
#endif
#include "vp_models.h"
#include "unit.h"
#include "vp_models_impl.h"
#include "unit.c"
unsigned long nondet_ulong(void); _Bool nondet_bool(void);
typedef struct LE link;
struct CM the_cm; struct SH0 the_h; link n_prev, n_next, far1, far2;
unsigned long in_min, in_max, in_cnt; _Bool in_reported;
static void setup(void)
{
  in_min = nondet_ulong(); in_max = nondet_ulong(); in_cnt = nondet_ulong(); in_reported = nondet_bool();
  __CPROVER_assume(in_min <= in_max && in_cnt <= in_max);
  the_h._b0.vp_tag = VP_TAG_S_sequence_handler_0; the_h._b0.min_calls = in_min; the_h._b0.max_calls = in_max; the_h._b0.call_count = in_cnt;
  the_cm.sequences = &the_h._b0; the_cm.reported = in_reported; the_cm._b0.name = "the expectation"; the_cm._b0.loc.file = "exp.cpp"; the_cm._b0.loc.line = 77;
  the_cm._b0._b0.vp_tag = VP_TAG_S_call_matcher_int_int_std_tuple_wildcard;
  link *s = &the_cm._b0._b0;
#if W_SHAPE == 0
  s->next = s; s->prev = s;                                             /* not in a list (mock destroyed first, or never hooked) */
#elif W_SHAPE == 1
  s->next = &n_next; s->prev = &n_next; n_next.next = s; n_next.prev = s;   /* only element: both neighbours are the sentinel */
#else
  s->next = &n_next; s->prev = &n_prev; n_next.prev = s; n_prev.next = s; n_next.next = &far1; n_prev.prev = &far2;   /* anywhere in a longer list */
#endif
  vp_rep_n = 0; vp_exc = 0; vp_lock_depth = 0;
}
#define UNFULFILLED (!in_reported && W_SHAPE != 0 && in_cnt < in_min)
static void report_checks(const char *unused, char first_letter)
{
  __CPROVER_assert(vp_rep_n == (UNFULFILLED ? 1 : 0), "[C04] POST lifetime_end.one_report_iff_linked_not_yet_named_and_below_the_lower_bound");
  if (UNFULFILLED) {
    __CPROVER_assert(vp_rep[0].sev == 1, "[C04,C15] POST lifetime_end.report_is_nonfatal");
    __CPROVER_assert(vp_rep[0].file == the_cm._b0.loc.file && vp_rep[0].line == 77, "[C04,C15] POST lifetime_end.report_carries_the_expectation_location");
    const struct vp_string *m = &vp_rep[0].msg; _Bool named = 0, req = 0, act = 0;
    __CPROVER_assert(!m->overflow, "[C04] MODEL token capacity sufficient");
    for (int k = 0; k < VP_TOK_CAP; k++) if (k < m->n) {
      if (m->t[k].kind == VP_T_CSTR && m->t[k].p == (void *)the_cm._b0.name) named = 1;
      if (m->t[k].kind == VP_T_ULONG && m->t[k].v == in_min) req = 1;
      if (m->t[k].kind == VP_T_ULONG && m->t[k].v == in_cnt) act = 1;
    }
    __CPROVER_assert(named, "[C04,C15] POST lifetime_end.report_gives_the_expectation_text");
    __CPROVER_assert(req || in_min == 1, "[C04] POST lifetime_end.report_gives_the_required_count");
    __CPROVER_assert(act || in_cnt <= 1, "[C04] POST lifetime_end.report_gives_the_actual_count");
  }
  __CPROVER_assert(vp_exc == 0 && !vp_terminated && vp_lock_depth == 0, "[C04,C15] POST lifetime_end.never_throws_and_releases_the_lock");
  __CPROVER_assert(the_h._b0.call_count == in_cnt && the_h._b0.min_calls == in_min && the_h._b0.max_calls == in_max, "[C04] FRAME lifetime_end.counts_untouched");
}
void d_dtor_body(void)
{
  setup(); link *s = &the_cm._b0._b0;
  CM_DTOR_BODY(&the_cm);
  report_checks("", 'U');
  __CPROVER_assert(s->next == s && s->prev == s, "[C04,C14] POST lifetime_end.the_expectation_leaves_its_list");
#if W_SHAPE == 1
  __CPROVER_assert(n_next.next == &n_next && n_next.prev == &n_next, "[C14] POST lifetime_end.the_list_is_closed_behind_it");
#elif W_SHAPE == 2
  __CPROVER_assert(n_prev.next == &n_next && n_next.prev == &n_prev && n_next.next == &far1 && n_prev.prev == &far2, "[C14] POST lifetime_end.the_list_is_closed_behind_it");
#endif
  __CPROVER_assert(!UNFULFILLED, "REACH dtor_body.unfulfilled"); __CPROVER_assert(0, "REACH! d_dtor_body");
}
void d_mock_destroyed_then_dtor(void)
{
  setup(); link *s = &the_cm._b0._b0;
  MOCK_DESTROYED(&the_cm);
  report_checks("", 'P');
#if W_SHAPE == 2
  __CPROVER_assert(s->next == &n_next && s->prev == &n_prev && n_prev.next == s && n_next.prev == s, "[C04] FRAME mock_destroyed.does_not_unlink_by_itself");
#endif
  /* decommission() unlinks it next; then the expectation object is released later: never a second report */
  int before = vp_rep_n;
  CM_DTOR_BODY(&the_cm);
  __CPROVER_assert(vp_rep_n == before || (!UNFULFILLED && 0), "[C04] POST lifetime_end.no_shortfall_is_reported_twice");
  __CPROVER_assert(vp_rep_n == (UNFULFILLED ? 1 : 0), "[C04] POST lifetime_end.mock_first_then_expectation_one_report_in_total_iff_unfulfilled");
  __CPROVER_assert(vp_exc == 0 && !vp_terminated, "[C15] POST lifetime_end.never_throws");
  __CPROVER_assert(!UNFULFILLED, "REACH mock_destroyed.unfulfilled"); __CPROVER_assert(0, "REACH! d_mock_destroyed_then_dtor");
}
int main(void) { VP_ENTRY(); return 0; }
