/* world.h - symbolic WF state of one mock function `int f(int)` of one mock object:
 *   N expectations (call_matcher<int(int), tuple<wildcard>>), each in `active`, `saturated` or detached,
 *   each with 0..2 WITH conditions, 0..2 side effects, optional return handler,
 *   each in 0..2 of the NSEQ sequences; sequence rings hold the still-linked handles in registration order.
 * Heap shapes are BUILT BY ASSIGNMENT (never assumed); every scalar is a free symbolic value under WF.
 * cm[0] is the newest expectation, cm[N-1] the oldest (creation order == descending index).
 */
#ifndef N
#define N 3
#endif
#define NSEQ 2
#ifndef KMAX
#define KMAX 2   /* sequences per expectation */
#endif
#define MAXC 2   /* conditions per expectation */
#define MAXA 2   /* side effects per expectation */

int nondet_int(void); unsigned long nondet_ulong(void); _Bool nondet_bool(void);

/* Heap SHAPE parameters are compile-time constants (the runner enumerates them): which list each expectation
 * is in, and how many conditions / side effects it has.  With concrete ring links CBMC's symbolic execution
 * decides every loop exit itself and never follows a sentinel as if it were an element.  Everything else
 * (bounds, counts, flags, clause results, sequence membership K<=KMAX, which handles are still registered)
 * stays symbolic.  W_* are base-3 digit strings, digit i describes expectation i. */
#ifndef W_WHERE
#error "W_WHERE (base-3: 0 active, 1 saturated, 2 detached) must be given"
#endif
#ifndef W_NCOND
#define W_NCOND 13   /* 111 base 3: one WITH condition each */
#endif
#ifndef W_NACT
#define W_NACT 13
#endif
static const int vp_pow3[6] = {1, 3, 9, 27, 81, 243};
#define DIGIT3(x, i) (((x) / vp_pow3[i]) % 3)

struct CM *cm[N];
struct S_sequence_handler_base *hb[N];
struct SH0 *h0[N]; struct SH1 *h1[N]; struct SH2 *h2[N];
struct COND *cond[N][MAXC];
struct SEFF *seff[N][MAXA];
struct RETH *reth[N];
struct ST *seq[NSEQ]; struct SM *seq_host[NSEQ];
struct EXPS *exps;

/* harness inputs (free, constrained only by WF) */
int in_where[N];            /* 0 active, 1 saturated, 2 detached (mock already destroyed) */
unsigned long in_min[N], in_max[N], in_cnt[N];
_Bool in_reported[N];
int in_ncond[N]; _Bool in_cres[N][MAXC];
int in_nact[N]; int in_athrow[N][MAXA];
_Bool in_hasret[N]; int in_rthrow[N]; int in_rval[N];
int in_K[N]; int in_seq0[N]; _Bool in_linked[N][2];
char nm_name[N][2]; char nm_file[N][2]; char nm_seq[NSEQ][2]; char nm_cond[N][MAXC][2]; char nm_func[2]; char nm_sig[2];

#define CMB_OF(i) (&cm[i]->_b0)
#define LE_OF(i) (&cm[i]->_b0._b0)
#define SENT_ACTIVE (&exps->active._b0._b0)
#define SENT_SAT (&exps->saturated._b0._b0)
#define SEQ_SENT(s) (&seq_host[s]->_b0)

static struct SM *handle(int i, int k)
{
#ifdef W_K
  if (DIGIT3(W_K, i) == 1) return &h1[i]->matchers.matchers.e[0];
  return &h2[i]->matchers.matchers.e[k];
#elif KMAX >= 2
  if (in_K[i] == 1) return &h1[i]->matchers.matchers.e[0];
  return &h2[i]->matchers.matchers.e[k];
#else
  return &h1[i]->matchers.matchers.e[0];
#endif
}
static int seq_of(int i, int k) { return k == 0 ? in_seq0[i] : 1 - in_seq0[i]; }

static void build_world(void)
{
  exps = VP_NEW(struct EXPS);
  exps->active._b0._b0.vp_tag = VP_TAG_S_call_matcher_list_int_int;
  exps->saturated._b0._b0.vp_tag = VP_TAG_S_call_matcher_list_int_int;
  for (int s = 0; s < NSEQ; s++) {
    /* the sequence_type object is overlaid on an object of the ELEMENT type: the ring sentinel (list_elem at
       offset 0 of both) can then be down-cast by the lowered iterator::operator* without leaving a typed
       object, which keeps CBMC's points-to sets exact.  The extra fields are null, so any real USE of
       *end() is still reported as a null dereference. */
    seq_host[s] = VP_NEW(struct SM);
    seq_host[s]->seq_name = 0; seq_host[s]->exp_name = 0; seq_host[s]->exp_loc.file = 0; seq_host[s]->exp_loc.line = 0;
    seq_host[s]->sequence_handler = 0; seq_host[s]->seq = 0;
    seq[s] = (struct ST *)seq_host[s];
    seq_host[s]->_b0.vp_tag = VP_TAG_S_list_sequence_matcher;
    seq_host[s]->_b0.next = &seq_host[s]->_b0; seq_host[s]->_b0.prev = &seq_host[s]->_b0;
  }
  struct S_list_elem_call_matcher_base_int_int *ta = SENT_ACTIVE, *ts = SENT_SAT;
  ta->next = ta; ta->prev = ta; ts->next = ts; ts->prev = ts;
  for (int i = 0; i < N; i++) {
    cm[i] = VP_NEW(struct CM);
    in_where[i] = DIGIT3(W_WHERE, i);
    in_min[i] = nondet_ulong(); in_max[i] = nondet_ulong(); in_cnt[i] = nondet_ulong();
    in_reported[i] = nondet_bool();
    #ifdef W_K
    in_K[i] = DIGIT3(W_K, i);
#else
    in_K[i] = nondet_int(); __CPROVER_assume(0 <= in_K[i] && in_K[i] <= KMAX);
#endif
    in_seq0[i] = nondet_int(); __CPROVER_assume(0 <= in_seq0[i] && in_seq0[i] <= 1);
    in_linked[i][0] = nondet_bool(); in_linked[i][1] = nondet_bool();
    /* WF.C / WF.S / WF.Q */
    __CPROVER_assume(in_min[i] <= in_max[i] && in_cnt[i] <= in_max[i]);
    if (in_where[i] == 0) __CPROVER_assume(in_max[i] == 0 || in_cnt[i] < in_max[i]);
    if (in_where[i] == 1) __CPROVER_assume(in_cnt[i] == in_max[i] && in_max[i] >= 1 && !in_linked[i][0] && !in_linked[i][1]);
    cm[i]->_b0._b0.vp_tag = VP_TAG_S_call_matcher_int_int_std_tuple_wildcard;
    cm[i]->_b1.vp_tag = VP_TAG_S_call_matcher_int_int_std_tuple_wildcard;
    cm[i]->_b0.name = nm_name[i]; cm[i]->_b0.loc.file = nm_file[i]; cm[i]->_b0.loc.line = 100 + i;
    cm[i]->reported = in_reported[i];
    cm[i]->yield_expressions.p = 0;
    /* the two intrusive lists of the mock function */
    struct S_list_elem_call_matcher_base_int_int *e = LE_OF(i);
    if (in_where[i] == 0)      { e->prev = ta->prev; e->next = ta; ta->prev->next = e; ta->prev = e; }
    else if (in_where[i] == 1) { e->prev = ts->prev; e->next = ts; ts->prev->next = e; ts->prev = e; }
    else                       { e->next = e; e->prev = e; }
#ifdef W_K
    /* concrete number of sequences per expectation: only the handler in use exists */
    if (DIGIT3(W_K, i) == 0)      { h0[i] = VP_NEW(struct SH0); h0[i]->_b0.vp_tag = VP_TAG_S_sequence_handler_0; hb[i] = &h0[i]->_b0; }
    else if (DIGIT3(W_K, i) == 1) { h1[i] = VP_NEW(struct SH1); h1[i]->_b0.vp_tag = VP_TAG_S_sequence_handler_1; hb[i] = &h1[i]->_b0; }
    else                          { h2[i] = VP_NEW(struct SH2); h2[i]->_b0.vp_tag = VP_TAG_S_sequence_handler_2; hb[i] = &h2[i]->_b0; }
#else
    /* symbolic K <= KMAX: all candidates exist with CONSTANT tags (CBMC's value-set filtering then resolves the
       dispatch switch); in_K picks the one in use */
    h0[i] = VP_NEW(struct SH0); h0[i]->_b0.vp_tag = VP_TAG_S_sequence_handler_0;
    h1[i] = VP_NEW(struct SH1); h1[i]->_b0.vp_tag = VP_TAG_S_sequence_handler_1;
#if KMAX >= 2
    h2[i] = VP_NEW(struct SH2); h2[i]->_b0.vp_tag = VP_TAG_S_sequence_handler_2;
    hb[i] = in_K[i] == 0 ? &h0[i]->_b0 : in_K[i] == 1 ? &h1[i]->_b0 : &h2[i]->_b0;
#else
    hb[i] = in_K[i] == 0 ? &h0[i]->_b0 : &h1[i]->_b0;
#endif
#endif
    hb[i]->min_calls = in_min[i]; hb[i]->max_calls = in_max[i]; hb[i]->call_count = in_cnt[i];
    cm[i]->sequences = hb[i];
    /* WITH conditions */
    in_ncond[i] = DIGIT3(W_NCOND, i);
    struct S_list_elem_condition_base_int_int *cs = &cm[i]->conditions._b0;
    cs->vp_tag = VP_TAG_S_list_condition_base_int_int_delete_disposer; cs->next = cs; cs->prev = cs;
    for (int c = 0; c < MAXC; c++) if (c < in_ncond[i]) {
      cond[i][c] = VP_NEW(struct COND);
      in_cres[i][c] = nondet_bool();
      cond[i][c]->g_result = in_cres[i][c]; cond[i][c]->id = nm_cond[i][c]; cond[i][c]->_b0.vp_tag = VP_TAG_USER_S_list_elem_condition_base_int_int;
      struct S_list_elem_condition_base_int_int *ce = &cond[i][c]->_b0;
      ce->prev = cs->prev; ce->next = cs; cs->prev->next = ce; cs->prev = ce;
    }
    /* SIDE_EFFECT actions */
    in_nact[i] = DIGIT3(W_NACT, i);
    struct S_list_elem_side_effect_base_int_int *as = &cm[i]->actions._b0;
    as->vp_tag = VP_TAG_S_list_side_effect_base_int_int_delete_disposer; as->next = as; as->prev = as;
    for (int c = 0; c < MAXA; c++) if (c < in_nact[i]) {
      seff[i][c] = VP_NEW(struct SEFF);
      in_athrow[i][c] = nondet_int(); __CPROVER_assume(in_athrow[i][c] == 0 || in_athrow[i][c] == VP_EXC_USER_STD || in_athrow[i][c] == VP_EXC_USER_OTHER);
      seff[i][c]->g_throws = in_athrow[i][c]; seff[i][c]->_b0.vp_tag = VP_TAG_USER_S_list_elem_side_effect_base_int_int;
      struct S_list_elem_side_effect_base_int_int *ae = &seff[i][c]->_b0;
      ae->prev = as->prev; ae->next = as; as->prev->next = ae; as->prev = ae;
    }
    /* RETURN / THROW handler */
    in_hasret[i] = nondet_bool();
    /* int f(int): an expectation without RETURN/THROW does not compile unless it is forbidding (C19 type-state) */
    __CPROVER_assume(in_hasret[i] || in_max[i] == 0);
    if (in_hasret[i]) {
      struct RETHT *rt = VP_NEW(struct RETHT); reth[i] = &rt->_b0;   /* the real return_handler_t<Sig,F> around the user's RETURN expression (functor stub) */
      in_rthrow[i] = nondet_int(); __CPROVER_assume(in_rthrow[i] == 0 || in_rthrow[i] == VP_EXC_USER_STD || in_rthrow[i] == VP_EXC_USER_OTHER);
      in_rval[i] = nondet_int();
      reth[i]->g_throws = in_rthrow[i]; reth[i]->g_value = in_rval[i]; reth[i]->vp_tag = VP_TAGOF(RETHT);
      cm[i]->return_handler_obj = reth[i];
    } else cm[i]->return_handler_obj = 0;
  }
  /* sequence rings: registration order = creation order = descending index */
  for (int i = N - 1; i >= 0; i--)
    for (int k = 0; k < 2; k++) if (k < in_K[i]) {
      struct SM *m = handle(i, k);
      int s = seq_of(i, k);
      m->_b0.vp_tag = VP_TAG_S_sequence_matcher;
      m->seq_name = nm_seq[s]; m->exp_name = nm_name[i]; m->exp_loc.file = nm_file[i]; m->exp_loc.line = 100 + i;
      m->sequence_handler = hb[i]; m->seq = seq[s];
      struct S_list_elem_sequence_matcher *e = &m->_b0, *t = SEQ_SENT(s);
      if (in_linked[i][k]) { e->prev = t->prev; e->next = t; t->prev->next = e; t->prev = e; }
      else { e->next = e; e->prev = e; }
    }
}

/* ------------------------------------------------------------------ specification functions
 * written from the property text over the harness inputs, independent of the library code */
static _Bool spec_satisfied(int i) { return in_cnt[i] >= in_min[i]; }
static _Bool spec_matches(int i)
{
  for (int c = 0; c < MAXC; c++) if (c < in_ncond[i] && !in_cres[i][c]) return 0;
  return 1;
}
/* number of still-pending handles registered before (i,k) in its sequence; ~0 if one of them has not
 * reached its lower bound, or if (i,k) itself has been passed (is no longer registered) */
static unsigned spec_cost1(int i, int k)
{
  if (!in_linked[i][k]) return ~0U;
  int s = seq_of(i, k); unsigned c = 0;
  for (int j = N - 1; j > i; j--)
    for (int kk = 0; kk < 2; kk++)
      if (kk < in_K[j] && seq_of(j, kk) == s && in_linked[j][kk]) { if (!spec_satisfied(j)) return ~0U; c++; }
  return c;
}
static unsigned spec_cost(int i)
{
  unsigned m = 0;
  for (int k = 0; k < 2; k++) if (k < in_K[i]) { unsigned c = spec_cost1(i, k); if (c > m) m = c; }
  return m;
}
/* C02: candidate = matching active expectation with the lowest cost, newest among equals; -1 if none */
static int spec_candidate(void)
{
  int best = -1; unsigned bc = 0;
  for (int i = 0; i < N; i++)
    if (in_where[i] == 0 && spec_matches(i)) {
      unsigned c = spec_cost(i);
      if (best < 0 || c < bc) { best = i; bc = c; }
    }
  return best;
}

/* states that the canonical API history constructs (used only to pick a REPLAYABLE counterexample after a refutation):
 * expectations created oldest first, then `count` accepted calls to each, oldest first; small bounds */
static _Bool spec_constructible(void)
{
  _Bool in_reported_all_active = 0;
  for (int i = 0; i < N; i++) if (in_where[i] == 0 && in_reported[i]) in_reported_all_active = 1;
  _Bool link[N][2]; _Bool called[N];
  for (int i = 0; i < N; i++) { link[i][0] = in_K[i] >= 1; link[i][1] = in_K[i] >= 2; called[i] = 0; }
  for (int i = N - 1; i >= 0; i--) {
    if (in_where[i] == 2 || in_max[i] > 4) return 0;
    /* `reported` can be produced for all live expectations at once (one earlier no-match call lists them all) */
    if (in_reported[i] != (in_where[i] == 0 && in_reported_all_active)) return 0;
    if (in_cnt[i] > 0) {
      for (int k = 0; k < 2; k++) if (k < in_K[i]) {
        if (!link[i][k]) return 0;
        for (int j = N - 1; j > i; j--) for (int kk = 0; kk < 2; kk++)
          if (kk < in_K[j] && seq_of(j, kk) == seq_of(i, k)) { if (link[j][kk] && in_cnt[j] < in_min[j]) return 0; link[j][kk] = 0; }
        if (in_cnt[i] == in_max[i]) link[i][k] = 0;
      }
    }
  }
  for (int i = 0; i < N; i++) for (int k = 0; k < 2; k++) if (k < in_K[i] && link[i][k] != in_linked[i][k]) return 0;
  return 1;
}

/* ------------------------------------------------------------------ observation of the final state */
static _Bool in_ring_cm(struct S_list_elem_call_matcher_base_int_int *sent, int i)
{
  struct S_list_elem_call_matcher_base_int_int *p = sent->next;
  for (int n = 0; n <= N; n++) { if (p == sent) return 0; if (p == LE_OF(i)) return 1; p = p->next; }
  return 0;
}
static _Bool handle_linked(int i, int k) { struct SM *m = handle(i, k); return m->_b0.next != &m->_b0; }
/* ring well-formedness (WF.R) of a call_matcher ring with at most N nodes */
static _Bool ring_ok_cm(struct S_list_elem_call_matcher_base_int_int *sent)
{
  struct S_list_elem_call_matcher_base_int_int *p = sent;
  for (int n = 0; n <= N + 1; n++) { if (p->next->prev != p) return 0; p = p->next; if (p == sent) return 1; }
  return 0;
}
static _Bool ring_ok_seq(int s)
{
  struct S_list_elem_sequence_matcher *sent = SEQ_SENT(s), *p = sent;
  for (int n = 0; n <= 2 * N + 1; n++) { if (p->next->prev != p) return 0; p = p->next; if (p == sent) return 1; }
  return 0;
}
