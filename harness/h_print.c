/* h_print.c - value printing (C18, partial): null safety, default formatting of every leaf, restoration of the
 * stream's flags/fill/width, byte-exact hex dump.  The stream is the token-log model; every inserted value token
 * carries a snapshot of the stream's flags/width/fill at the time of insertion. */
#define VP_TOK_CAP 24
#define VP_TOK_FMT 1
#include "vp_models.h"
#include "unit.h"
#include "vp_models_impl.h"
#include "unit.c"
int nondet_int(void); long nondet_long(void); char nondet_char(void); _Bool nondet_bool(void); unsigned char nondet_uchar(void);
struct vp_os os; int f0; long w0; char c0;
static void any_stream(void) { vpx_vp_os_ctor(&os); f0 = nondet_int(); w0 = nondet_long(); c0 = nondet_char(); os.flags = f0; os.width = w0; os.fill = c0; }
#define RESTORED __CPROVER_assert(os.flags == f0 && os.fill == c0 && os.width == w0, "[C18] POST print.earlier_flags_fill_and_width_in_effect_again")
#define DEFAULT_FMT(k) __CPROVER_assert(os.t[k].fl == (vpg_dec | vpg_left) && os.t[k].w == 0 && os.t[k].fi == ' ', "[C18] POST print.leaf_rendered_decimal_unpadded_whatever_the_stream_carried")

void p_int(void) { any_stream(); int x = nondet_int(); PRINT_INT(&os, &x);
  __CPROVER_assert(os.n == 1 && os.t[0].kind == VP_T_INT && (int)os.t[0].v == x, "[C18] POST print.streamable_value_uses_operator_shl_once");
  DEFAULT_FMT(0); RESTORED; __CPROVER_assert(0, "REACH! p_int"); }
void p_cstr(void) { any_stream(); char buf[2]; char *s = nondet_bool() ? &buf[0] : (char *)0; PRINT_CSTR(&os, &s);
  if (s == 0) __CPROVER_assert(os.n == 0 && os.nlit == 1, "[C18] POST print.null_char_pointer_prints_nullptr_and_is_never_dereferenced");
  else { __CPROVER_assert(os.n == 1 && os.t[0].kind == VP_T_CSTR && os.t[0].p == s, "[C18] POST print.non_null_string_is_streamed"); DEFAULT_FMT(0); RESTORED; } __CPROVER_assert(s != 0, "REACH p_cstr.null"); __CPROVER_assert(0, "REACH! p_cstr"); }
void p_ptr(void) { any_stream(); int v; int *p = nondet_bool() ? &v : (int *)0; PRINT_PTR(&os, &p);
  if (p == 0) __CPROVER_assert(os.n == 0 && os.nlit == 1, "[C18] POST print.null_pointer_prints_nullptr");
  else { __CPROVER_assert(os.n == 1 && os.t[0].kind == VP_T_PTR && os.t[0].p == p, "[C18] POST print.non_null_pointer_is_streamed"); DEFAULT_FMT(0); RESTORED; } __CPROVER_assert(0, "REACH! p_ptr"); }
void p_nullptr(void) { any_stream(); PRINT_NULLPTR(&os, (void *)0);
  __CPROVER_assert(os.n == 0 && os.nlit == 1, "[C18] POST print.nullptr_t_prints_nullptr"); __CPROVER_assert(0, "REACH! p_nullptr"); }

#define HEXDUMP_OBLIGATION(fn, PRINT, T, SZ) \
void fn(void) { any_stream(); T obj; unsigned char *raw = (unsigned char *)&obj; for (int i = 0; i < SZ; i++) raw[i] = nondet_uchar(); \
  PRINT(&os, &obj); \
  __CPROVER_assert(!os.overflow && os.n == 1 + SZ, "[C18] POST hexdump.size_then_exactly_sizeof_T_bytes"); \
  __CPROVER_assert(os.t[0].kind == VP_T_ULONG && os.t[0].v == SZ, "[C18] POST hexdump.prints_the_object_size"); DEFAULT_FMT(0); \
  for (int i = 0; i < SZ; i++) { \
    __CPROVER_assert(os.t[1 + i].kind == VP_T_UINT && os.t[1 + i].v == raw[i], "[C18] POST hexdump.byte_exact_in_memory_order"); \
    __CPROVER_assert((os.t[1 + i].fl & vpg_basefield) == vpg_hex && os.t[1 + i].w == 2 && os.t[1 + i].fi == '0' && (os.t[1 + i].fl & vpg_adjustfield) == vpg_right, "[C18] POST hexdump.each_byte_as_two_hex_digits"); } \
  __CPROVER_assert(os.nlit == 1 + (SZ > 8 ? 1 : 0) + SZ + SZ / 16 + 1, "[C18] POST hexdump.header_newline_after_every_16_bytes_and_closing_brace"); \
  RESTORED; __CPROVER_assert(0, "REACH! " #fn); }
HEXDUMP_OBLIGATION(p_struct4, PRINT_S, struct S_vp_S, 4)
HEXDUMP_OBLIGATION(p_struct1, PRINT_B1, struct S_vp_B1, 1)
HEXDUMP_OBLIGATION(p_struct9, PRINT_B9, struct S_vp_B9, 9)
HEXDUMP_OBLIGATION(p_struct17, PRINT_B17, struct S_vp_B17, 17)
int main(void) { VP_ENTRY(); return 0; }
