/* harness: one entry per contract on sequence_handler_base; DFCC generates the obligations */
#include "vp_models.h"
#include "unit.h"
#include "vp_models_impl.h"
#include "unit.c"
unsigned long nondet_ulong(void);
void h_is_satisfied(void)  { struct S_sequence_handler_base *s; _Bool r = IS_SATISFIED(s); __CPROVER_assert(0, "REACH is_satisfied"); }
void h_is_saturated(void)  { struct S_sequence_handler_base *s; _Bool r = IS_SATURATED(s); __CPROVER_assert(0, "REACH is_saturated"); }
void h_is_forbidden(void)  { struct S_sequence_handler_base *s; _Bool r = IS_FORBIDDEN(s); __CPROVER_assert(0, "REACH is_forbidden"); }
void h_increment_call(void){ struct S_sequence_handler_base *s; INCREMENT_CALL(s); __CPROVER_assert(0, "REACH increment_call"); }
void h_set_limits(void)    { struct S_sequence_handler_base *s; SET_LIMITS(s, nondet_ulong(), nondet_ulong()); __CPROVER_assert(0, "REACH set_limits"); }
void h_get_min_calls(void) { struct S_sequence_handler_base *s; unsigned long r = GET_MIN_CALLS(s); __CPROVER_assert(0, "REACH get_min_calls"); }
void h_get_calls(void)     { struct S_sequence_handler_base *s; unsigned long r = GET_CALLS(s); __CPROVER_assert(0, "REACH get_calls"); }
int main(void) { VP_ENTRY(); return 0; }
