/* h_c17s.c - C17 through the API (scenario lowered from vp_c17_trace): tracer constructor / destructor (real), set_tracer,
 * mock_func's trace_agent for a mock function of arity 2; the user's tracer::trace() override is the stub that logs the record. */
#include "vp_models.h"
#include "unit.h"
#include "vp_models_impl.h"
void TRACE_STUB(struct VPTRACER *self, char *file, unsigned long line, struct vp_string *call)
{ if (vp_tr_n < VP_LOG_CAP) { vp_tr[vp_tr_n].tracer = self; vp_tr[vp_tr_n].file = file; vp_tr[vp_tr_n].line = line; vp_tr[vp_tr_n].msg = *call; } vp_tr_n++; }
#include "unit.c"
int nondet_int(void);
void c_trace(void)
{
  int x0 = nondet_int(), y0 = nondet_int(); struct OBS o;
  C17_TRACE(x0, y0, &o);
  __CPROVER_assert(vp_exc == 0 && vp_rep_n == 0 && !vp_terminated && o.ret == 1, "[C17] POST tracer.both_calls_are_accepted_silently");
  __CPROVER_assert(vp_tr_n == 1, "[C17] POST tracer.exactly_one_record_for_the_call_made_while_the_tracer_was_alive_none_after_it_died");
  const struct vp_string *m = &vp_tr[0].msg; int n_int = 0; long ints[4];
  __CPROVER_assert(!m->overflow, "[C17] MODEL token capacity sufficient");
  for (int k = 0; k < VP_TOK_CAP; k++) if (k < m->n && m->t[k].kind == VP_T_INT) { if (n_int < 4) ints[n_int] = (long)m->t[k].v; n_int++; }
  /* "  param  _1 == x" / "  param  _2 == y": the position number and the value are both streamed as ints */
  __CPROVER_assert(n_int == 4 && ints[0] == 1 && ints[1] == (long)x0 && ints[2] == 2 && ints[3] == (long)y0, "[C17] POST tracer.the_record_carries_every_actual_argument_in_positional_order");
  __CPROVER_assert(m->n >= 1 && m->t[0].kind == VP_T_CSTR && m->t[0].p != 0 && ((const char *)m->t[0].p)[0] == 'm' && ((const char *)m->t[0].p)[2] == 'p', "[C17] POST tracer.the_record_starts_with_the_handling_expectation_text");
  __CPROVER_assert(vp_tr[0].line > 0 && vp_tr[0].file != 0, "[C17] POST tracer.the_record_carries_the_expectation_location");
  __CPROVER_assert(0, "REACH! c_trace");
}
/* null argument and null returned value in a trace record: printed without touching the null pointer (C18) */
_Bool nondet_bool(void);
void c_trace_null(void)
{
  _Bool isnull = nondet_bool(); struct OBS o;
  C17_TRACE_NULL(isnull, &o);
  __CPROVER_assert(vp_exc == 0 && vp_rep_n == 0 && !vp_terminated && o.ret == 1, "[C17,C08] POST tracer_null.the_call_is_accepted_and_returns_the_argument_itself");
  __CPROVER_assert(vp_tr_n == 1 && !vp_tr[0].msg.overflow, "[C17] POST tracer_null.exactly_one_record");
  /* the untagged / [C18]-tagged model check NULLSTR states the null-safety: operator<< is never given the null pointer */
  int n_str = 0; const struct vp_string *m = &vp_tr[0].msg;
  for (int k = 0; k < VP_TOK_CAP; k++) if (k < m->n && m->t[k].kind == VP_T_CSTR && m->t[k].p != 0 && ((const char *)m->t[k].p)[0] == 'x') n_str++;
  if (!isnull) __CPROVER_assert(n_str == 2, "[C17] POST tracer_null.a_non_null_string_is_printed_as_argument_and_as_returned_value");
  __CPROVER_assert(isnull, "REACH tracer_null.non_null"); __CPROVER_assert(!isnull, "REACH tracer_null.null");
  __CPROVER_assert(0, "REACH! c_trace_null");
}
/* "one record per accepted call" under recursion from a side effect: the inner call's record first (its agent dies first), then the
 * outer call's, each with its own expectation text, argument and returned value */
unsigned nondet_uint(void);
void c_trace_nested(void)
{
  int x0 = nondet_int(); unsigned u0 = nondet_uint(); struct OBS o;
  C17_NESTED(x0, u0, &o);
  __CPROVER_assert(vp_exc == 0 && vp_rep_n == 0 && !vp_terminated && o.ret == 7 && o.x == 1, "[C17,C08] POST nested.both_calls_are_accepted_and_return_their_own_values");
  __CPROVER_assert(vp_tr_n == 2, "[C17] POST nested.exactly_one_record_per_accepted_call");
  const struct vp_string *mi = &vp_tr[0].msg, *mo = &vp_tr[1].msg;
  __CPROVER_assert(!mi->overflow && !mo->overflow, "[C17] MODEL token capacity sufficient");
  int ni = 0, no = 0; unsigned long vi[4], vo[4];
  for (int k = 0; k < VP_TOK_CAP; k++) {
    if (k < mi->n && (mi->t[k].kind == VP_T_INT || mi->t[k].kind == VP_T_UINT)) { if (ni < 4) vi[ni] = mi->t[k].v; ni++; }
    if (k < mo->n && (mo->t[k].kind == VP_T_INT || mo->t[k].kind == VP_T_UINT)) { if (no < 4) vo[no] = mo->t[k].v; no++; }
  }
  __CPROVER_assert(mi->n >= 1 && mi->t[0].kind == VP_T_CSTR && mi->t[0].p != 0 && ((const char *)mi->t[0].p)[2] == 'i', "[C17] POST nested.the_first_record_is_that_of_the_inner_call_with_its_expectation_text");
  __CPROVER_assert(mo->n >= 1 && mo->t[0].kind == VP_T_CSTR && mo->t[0].p != 0 && ((const char *)mo->t[0].p)[2] == 'o', "[C17] POST nested.the_second_record_is_that_of_the_outer_call_with_its_expectation_text");
  __CPROVER_assert(ni == 3 && vi[0] == 1 && (unsigned)vi[1] == u0 && (unsigned)vi[2] == u0 + 1, "[C17] POST nested.the_inner_record_carries_the_inner_argument_and_returned_value");
  __CPROVER_assert(no == 3 && vo[0] == 1 && (int)vo[1] == x0 && (int)vo[2] == 7, "[C17] POST nested.the_outer_record_carries_the_outer_argument_and_returned_value_only");
  __CPROVER_assert(0, "REACH! c_trace_nested");
}
/* a rejected call whose argument is a null char pointer: the no-match report prints it without touching it (C18), one fatal report (C15) */
void c_null_report(void)
{
  struct OBS o;
  C18_NULL_REPORT(&o);
  __CPROVER_assert(o.ret == 1 && vp_rep_n == 1 && vp_rep[0].sev == 0 && !vp_rep[0].msg.overflow, "[C15,C01,C10] POST null_report.the_null_argument_is_rejected_by_ne_nullptr_with_one_fatal_report");
  __CPROVER_assert(o.x == 1 && vp_exc == 0 && !vp_terminated, "[C01,C04] POST null_report.the_fitting_call_is_then_handled_and_nothing_more_is_reported");
  __CPROVER_assert(0, "REACH! c_null_report");
}
int main(void) { VP_ENTRY(); return 0; }
