/* h_c13s.c - C13 through the macros (scenario lowered from the driver function vp_c13_macros): REQUIRE_DESTRUCTION plumbing
 * (make_unique<lifetime_monitor>, lifetime_monitor_modifier derived from unique_ptr, lifetime_monitor_releaser::operator+,
 * conversion to unique_ptr<expectation>), the deathwatched destructor, the virtual is_satisfied / is_saturated. */
#define VP_TOK_CAP 1
#include "vp_models.h"
#include "unit.h"
#include "vp_models_impl.h"
#include "unit.c"
_Bool nondet_bool(void);
void c_destruction(void)
{
  _Bool expect = nondet_bool(); struct OBS o;
  C13_MACROS(expect, &o);
  __CPROVER_assert(vp_rep_n == (expect ? 0 : 1), "[C13] POST macros.a_death_is_reported_iff_no_REQUIRE_DESTRUCTION_is_alive_for_the_object");
  if (!expect) __CPROVER_assert(vp_rep[0].sev == 1, "[C13,C15] POST macros.an_unexpected_destruction_is_a_non_fatal_report");
  if (expect) __CPROVER_assert(o.x == 0 && o.ret == 1 && o.y == 1, "[C13] POST macros.the_requirement_is_unsatisfied_before_and_satisfied_and_saturated_after_the_death");
  __CPROVER_assert(vp_exc == 0 && !vp_terminated, "[C13,C14,C15] POST macros.nothing_throws_and_the_requirement_is_released_quietly");
  __CPROVER_assert(expect, "REACH destruction.unexpected"); __CPROVER_assert(!expect, "REACH destruction.expected");
  __CPROVER_assert(0, "REACH! c_destruction");
}
int main(void) { VP_ENTRY(); return 0; }
