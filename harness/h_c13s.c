/* h_c13s.c - C13 through the macros (scenario lowered from the driver function vp_c13_macros): REQUIRE_DESTRUCTION plumbing
 * (make_unique<lifetime_monitor>, lifetime_monitor_modifier derived from unique_ptr, lifetime_monitor_releaser::operator+,
 * conversion to unique_ptr<expectation>), the deathwatched destructor, the virtual is_satisfied / is_saturated. */
#ifndef VP_TOK_CAP
#define VP_TOK_CAP 1
#endif
#include "vp_models.h"
#include "unit.h"
#include "vp_models_impl.h"
#include "unit.c"
_Bool nondet_bool(void);
void c_destruction(void)
{
  _Bool expect = nondet_bool(); struct OBS o;
  C13_MACROS(expect, &o);
  __CPROVER_assert(vp_rep_n == (expect ? 0 : 1), "[C13] POST macros.a_death_is_reported_iff_no_REQUIRE_DESTRUCTION_is_alive_for_the_object");
  if (!expect) __CPROVER_assert(vp_rep[0].sev == 1, "[C13,C15] POST macros.an_unexpected_destruction_is_a_non_fatal_report");
  if (expect) __CPROVER_assert(o.x == 0 && o.ret == 1 && o.y == 1, "[C13] POST macros.the_requirement_is_unsatisfied_before_and_satisfied_and_saturated_after_the_death");
  __CPROVER_assert(vp_exc == 0 && !vp_terminated, "[C13,C14,C15] POST macros.nothing_throws_and_the_requirement_is_released_quietly");
  __CPROVER_assert(expect, "REACH destruction.unexpected"); __CPROVER_assert(!expect, "REACH destruction.expected");
  __CPROVER_assert(0, "REACH! c_destruction");
}
/* C05 / C13: REQUIRE_DESTRUCTION(...).IN_SEQUENCE(s) behind REQUIRE_CALL(m, g()).IN_SEQUENCE(s) */
void c_seq_destruction(void)
{
  _Bool early = nondet_bool(); struct OBS o;
  C13_SEQ(early, &o);
  __CPROVER_assert(o.x == 0, "[C06] POST seqdestr.the_sequence_is_not_completed_while_both_steps_are_pending");
  __CPROVER_assert(o.ret == 1, "[C05,C13] POST seqdestr.the_destruction_counts_as_having_happened_in_or_out_of_order");
  __CPROVER_assert(o.y == 1, "[C06] POST seqdestr.afterwards_nothing_is_pending_in_the_sequence");
  if (!early) __CPROVER_assert(vp_rep_n == 0, "[C05,C13] POST seqdestr.in_order_nothing_is_reported");
  else {
    /* out of order: the destruction is one non-fatal sequence report; the passed-over call can never match again, so its
       expectation is reported once (non-fatally) when its lifetime ends */
    __CPROVER_assert(vp_rep_n == 2 && vp_rep[0].sev == 1 && vp_rep[1].sev == 1, "[C05,C15] POST seqdestr.out_of_order_is_reported_non_fatally_once_and_the_passed_over_expectation_once_at_its_end");
  }
  __CPROVER_assert(vp_exc == 0 && !vp_terminated, "[C15] POST seqdestr.nothing_throws_out_of_a_destructor");
  __CPROVER_assert(early, "REACH seqdestr.in_order"); __CPROVER_assert(!early, "REACH seqdestr.early");
  __CPROVER_assert(0, "REACH! c_seq_destruction");
}
/* the text under which a sequenced REQUIRE_DESTRUCTION is known to its sequence: "every report about an expectation carries that
 * expectation's file, line and text" (C15) - here the requirement is the expectation the report is about (first required in line) */
static int monitor_named_at(const struct vp_string *m, unsigned long line)
{
  /* index of the token pair  <"NAMED_REQUIRE_DESTRUCTION(*obj)"> ... <line> (the line within the next 4 tokens), or -1 */
  int at = -1;
  for (int k = 0; k < VP_TOK_CAP; k++) if (k < m->n && at < 0 && m->t[k].kind == VP_T_CSTR && m->t[k].p != 0) {
    const char *c = (const char *)m->t[k].p;
    if (c[0] == 'N' && c[1] == 'A' && c[6] == 'R' && c[14] == 'D' && c[25] == '(' && c[26] == '*' && c[27] == 'o') {
      for (int j = 1; j <= 4; j++) if (k + j < m->n && k + j < VP_TOK_CAP && m->t[k + j].kind == VP_T_ULONG && m->t[k + j].v == line) at = k;
    }
  }
  return at;
}
void c_seq_names(void)
{
  _Bool early = nondet_bool(); struct OBS o;
  C13_NAMES(early, &o);
  __CPROVER_assert(vp_exc == 0 && !vp_terminated, "[C15,C14] POST seqnames.nothing_escapes_and_nothing_throws_out_of_a_destructor");
  __CPROVER_assert(o.x == 1 && o.y == 1, "[C05,C13] POST seqnames.after_the_death_and_the_call_the_requirement_is_satisfied_and_the_sequence_completed");
  if (!early) __CPROVER_assert(vp_rep_n == 0 && o.ret == 0, "[C05] POST seqnames.in_order_nothing_is_reported");
  else {
    __CPROVER_assert(vp_rep_n == 1 && vp_rep[0].sev == 0 && o.ret == 1, "[C05,C15] POST seqnames.the_early_call_is_exactly_one_fatal_sequence_report_and_changes_nothing");
    __CPROVER_assert(!vp_rep[0].msg.overflow, "[C15] MODEL token capacity sufficient");
    __CPROVER_assert(monitor_named_at(&vp_rep[0].msg, (unsigned long)o.extra) >= 0, "[C15,C05] POST seqnames.the_report_names_the_pending_requirement_by_its_text_file_and_line");
  }
  __CPROVER_assert(early, "REACH seqnames.in_order"); __CPROVER_assert(!early, "REACH seqnames.early");
  __CPROVER_assert(0, "REACH! c_seq_names");
}
void c_seq_listing(void)
{
  struct OBS o;
  C13_LISTING(&o);
  __CPROVER_assert(vp_exc == 0 && !vp_terminated, "[C15,C14] POST seqlisting.nothing_throws_out_of_a_destructor");
  __CPROVER_assert(o.x == 0 && o.ret == 0, "[C06,C13] POST seqlisting.not_completed_while_the_requirement_is_pending_and_not_satisfied_by_the_death_of_the_sequence");
  __CPROVER_assert(vp_rep_n == 3 && vp_rep[0].sev == 1 && vp_rep[1].sev == 1 && vp_rep[2].sev == 1, "[C06,C13,C15] POST seqlisting.one_listing_then_still_alive_then_unexpected_destruction_all_non_fatal");
  __CPROVER_assert(!vp_rep[0].msg.overflow, "[C06] MODEL token capacity sufficient");
  __CPROVER_assert(monitor_named_at(&vp_rep[0].msg, (unsigned long)o.extra) >= 0, "[C06,C15] POST seqlisting.the_listing_names_the_registered_requirement_by_its_text_file_and_line");
  __CPROVER_assert(vp_rep[1].line == (unsigned long)o.extra, "[C13,C15] POST seqlisting.the_still_alive_report_carries_the_requirement_location");
  __CPROVER_assert(0, "REACH! c_seq_listing");
}
int main(void) { VP_ENTRY(); return 0; }
