/* h_c13s.c - C13 through the macros (scenario lowered from the driver function vp_c13_macros): REQUIRE_DESTRUCTION plumbing
 * (make_unique<lifetime_monitor>, lifetime_monitor_modifier derived from unique_ptr, lifetime_monitor_releaser::operator+,
 * conversion to unique_ptr<expectation>), the deathwatched destructor, the virtual is_satisfied / is_saturated. */
#define VP_TOK_CAP 1
#include "vp_models.h"
#include "unit.h"
#include "vp_models_impl.h"
#include "unit.c"
_Bool nondet_bool(void);
void c_destruction(void)
{
  _Bool expect = nondet_bool(); struct OBS o;
  C13_MACROS(expect, &o);
  __CPROVER_assert(vp_rep_n == (expect ? 0 : 1), "[C13] POST macros.a_death_is_reported_iff_no_REQUIRE_DESTRUCTION_is_alive_for_the_object");
  if (!expect) __CPROVER_assert(vp_rep[0].sev == 1, "[C13,C15] POST macros.an_unexpected_destruction_is_a_non_fatal_report");
  if (expect) __CPROVER_assert(o.x == 0 && o.ret == 1 && o.y == 1, "[C13] POST macros.the_requirement_is_unsatisfied_before_and_satisfied_and_saturated_after_the_death");
  __CPROVER_assert(vp_exc == 0 && !vp_terminated, "[C13,C14,C15] POST macros.nothing_throws_and_the_requirement_is_released_quietly");
  __CPROVER_assert(expect, "REACH destruction.unexpected"); __CPROVER_assert(!expect, "REACH destruction.expected");
  __CPROVER_assert(0, "REACH! c_destruction");
}
/* C05 / C13: REQUIRE_DESTRUCTION(...).IN_SEQUENCE(s) behind REQUIRE_CALL(m, g()).IN_SEQUENCE(s) */
void c_seq_destruction(void)
{
  _Bool early = nondet_bool(); struct OBS o;
  C13_SEQ(early, &o);
  __CPROVER_assert(o.x == 0, "[C06] POST seqdestr.the_sequence_is_not_completed_while_both_steps_are_pending");
  __CPROVER_assert(o.ret == 1, "[C05,C13] POST seqdestr.the_destruction_counts_as_having_happened_in_or_out_of_order");
  __CPROVER_assert(o.y == 1, "[C06] POST seqdestr.afterwards_nothing_is_pending_in_the_sequence");
  if (!early) __CPROVER_assert(vp_rep_n == 0, "[C05,C13] POST seqdestr.in_order_nothing_is_reported");
  else {
    /* out of order: the destruction is one non-fatal sequence report; the passed-over call can never match again, so its
       expectation is reported once (non-fatally) when its lifetime ends */
    __CPROVER_assert(vp_rep_n == 2 && vp_rep[0].sev == 1 && vp_rep[1].sev == 1, "[C05,C15] POST seqdestr.out_of_order_is_reported_non_fatally_once_and_the_passed_over_expectation_once_at_its_end");
  }
  __CPROVER_assert(vp_exc == 0 && !vp_terminated, "[C15] POST seqdestr.nothing_throws_out_of_a_destructor");
  __CPROVER_assert(early, "REACH seqdestr.in_order"); __CPROVER_assert(!early, "REACH seqdestr.early");
  __CPROVER_assert(0, "REACH! c_seq_destruction");
}
int main(void) { VP_ENTRY(); return 0; }
