/* h_seqval.c - sequence_type::validate_match (C05, C15): "a monitored destruction that is ineligible is reported non-fatally
 * (once per violated sequence)" / "a call whose only matching expectations are ineligible is reported as exactly one fatal
 * sequence violation".  validate() asks every sequence of the expectation; THIS sequence must be reported iff it is the one
 * (or one of those) that makes the expectation ineligible: an earlier registered expectation is below its lower bound, or the
 * expectation's own registration is gone.  BOUNDED: rings of W_N <= 3 handles (the listing loop), target position W_T
 * (W_T == W_N: not registered); handler bounds and counts free. */
#ifndef VP_TOK_CAP
#define VP_TOK_CAP 24
#endif
#include "vp_models.h"
#include "unit.h"
#include "vp_models_impl.h"
#include "unit.c"
unsigned long nondet_ulong(void); int nondet_int(void);
#ifndef W_N
#define W_N 2
#endif
#ifndef W_T
#define W_T 1
#endif
struct ST the_seq; struct SM h[4]; struct S_sequence_handler_base hb[4]; unsigned long in_min[4], in_cnt[4]; int in_sev;
char nm[4][2];
void v_validate_match(void)
{
  typedef struct S_list_elem_sequence_matcher sle;
  sle *sent = &the_seq.matchers._b0; sent->next = sent; sent->prev = sent;
  for (int i = 0; i < 4; i++) {
    in_min[i] = nondet_ulong(); in_cnt[i] = nondet_ulong(); unsigned long mx = nondet_ulong(); __CPROVER_assume(in_min[i] <= mx && in_cnt[i] <= mx);
    hb[i].min_calls = in_min[i]; hb[i].max_calls = mx; hb[i].call_count = in_cnt[i];
    h[i]._b0.vp_tag = VP_TAG_S_sequence_matcher; h[i].seq = &the_seq; h[i].sequence_handler = &hb[i]; h[i].seq_name = "s"; h[i].exp_name = nm[i]; h[i].exp_loc.file = "f.cpp"; h[i].exp_loc.line = 10 + i;
    h[i]._b0.next = &h[i]._b0; h[i]._b0.prev = &h[i]._b0;
    if (i < W_N) { sle *e = &h[i]._b0; e->prev = sent->prev; e->next = sent; sent->prev->next = e; sent->prev = e; }      /* registration order = index order */
  }
  in_sev = nondet_int(); __CPROVER_assume(in_sev == 0 || in_sev == 1);
  /* a monitored destruction (non-fatal validation) always concerns a requirement that is still registered */
  __CPROVER_assume(in_sev == 0 || W_T < W_N);
  struct S_location loc; loc.file = "call.cpp"; loc.line = 99;
  _Bool blocked = (W_T >= W_N);
  for (int j = 0; j < W_N; j++) if (j < W_T && in_cnt[j] < in_min[j]) blocked = 1;
  VALIDATE_MATCH(&the_seq, in_sev, &h[W_T < W_N ? W_T : 3], "s", "the call", loc);
  __CPROVER_assert(vp_rep_n == (blocked ? 1 : 0), "[C05] POST validate_match.this_sequence_is_reported_iff_it_is_the_one_that_makes_the_expectation_ineligible");
  if (vp_rep_n >= 1) {
    __CPROVER_assert(vp_rep[0].sev == in_sev && vp_rep[0].line == 99 && vp_rep[0].file == loc.file, "[C05,C15] POST validate_match.report_has_the_given_severity_and_the_location_of_the_call");
    __CPROVER_assert((in_sev == 0) == (vp_exc == VP_EXC_VIOLATION), "[C15] POST validate_match.only_a_fatal_report_does_not_return");
  }
  for (int i = 0; i < W_N; i++) __CPROVER_assert(h[i]._b0.next != &h[i]._b0, "[C05] FRAME validate_match.registrations_untouched");
  __CPROVER_assert(!blocked, "REACH validate_match.blocked"); __CPROVER_assert(blocked, "REACH validate_match.not_blocked");
  __CPROVER_assert(0, "REACH! v_validate_match");
}
int main(void) { VP_ENTRY(); return 0; }
