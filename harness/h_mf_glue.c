/* h_mf_glue.c - mock_func() as one unbounded modular obligation (C01, C02, C08, C15, C17).  The callees that walk lists or
 * belong to the matcher are contract-only stubs that log their calls: find() (own obligations: find_is.* induction and
 * world.find.*), the free report_mismatch() (world.text.no_match_listing), call_matcher_base::run_actions() / return_value()
 * (run_actions.decision_logic.contract, clause_is.*, world.call.*).  What is run is the real glue: lock, parameter tuple,
 * the null test, trace_agent construction / trace_params / trace_exception / destructor, try / catch / rethrow. */
#include "vp_models.h"
#include "unit.h"
#include "vp_models_impl.h"
int nondet_int(void); _Bool nondet_bool(void);
enum { E_FIND = 1, E_MISMATCH, E_RUN, E_RET };
int elog[6]; int elog_n; static void el(int k) { if (elog_n < 6) elog[elog_n] = k; elog_n++; }
struct EXPS the_exps; struct CMB the_matcher; struct CMB *g_found; int *the_x;
int g_run_throws, g_ret_throws, g_ret_value; int lock_at_run, lock_at_ret;
struct CML *find_list; int *find_param; struct CML *mm_active, *mm_saturated; int *mm_param; struct CMB *run_self, *ret_self; struct CML *run_saturated; int *run_param, *ret_param;
struct S_tracer the_tracer_obj;
struct CMB *FIND_STUB(struct CML *list, struct vp_tuple_vp_refw_int *p) { el(E_FIND); find_list = list; find_param = p->_0.p; return g_found; }
void REPORT_MISMATCH_STUB(struct CML *active, struct CML *saturated, struct vp_string *name, struct vp_tuple_vp_refw_int *p)
{ el(E_MISMATCH); mm_active = active; mm_saturated = saturated; mm_param = p->_0.p;
  /* contract of report_mismatch: one fatal report through the conforming reporter, which does not return */
  if (vp_rep_n < VP_LOG_CAP) { vp_rep[vp_rep_n].sev = 0; } vp_rep_n++; vp_exc = VP_EXC_VIOLATION; }
void VS_CMB_RUN_ACTIONS(struct CMB *self, struct vp_tuple_vp_refw_int *p, struct CML *saturated) { el(E_RUN); run_self = self; run_param = p->_0.p; run_saturated = saturated; lock_at_run = vp_lock_depth; if (g_run_throws) vp_exc = g_run_throws; }
int VS_CMB_RETURN_VALUE(struct CMB *self, struct S_trace_agent *ta, struct vp_tuple_vp_refw_int *p) { el(E_RET); ret_self = self; ret_param = p->_0.p; lock_at_ret = vp_lock_depth; if (g_ret_throws) vp_exc = g_ret_throws; return g_ret_value; }
void VS_TRACE(struct S_tracer *self, char *file, unsigned long line, struct vp_string *call)
{ if (vp_tr_n < VP_LOG_CAP) { vp_tr[vp_tr_n].tracer = self; vp_tr[vp_tr_n].file = file; vp_tr[vp_tr_n].line = line; vp_tr[vp_tr_n].msg = *call; } vp_tr_n++; }
#include "unit.c"

void g_glue(void)
{
  int x = nondet_int(); the_x = &x;
  _Bool found = nondet_bool(); _Bool tracing = nondet_bool();
  the_matcher._b0.vp_tag = VP_TAG_USER_S_list_elem_call_matcher_base_int_int; the_matcher.loc.file = "exp.cpp"; the_matcher.loc.line = 77; the_matcher.name = "the expectation";
  g_found = found ? &the_matcher : (struct CMB *)0;
  g_run_throws = nondet_int(); g_ret_throws = nondet_int(); g_ret_value = nondet_int();
  __CPROVER_assume(g_run_throws == 0 || g_run_throws == VP_EXC_USER_STD || g_run_throws == VP_EXC_USER_OTHER || g_run_throws == VP_EXC_VIOLATION);
  __CPROVER_assume(g_ret_throws == 0 || g_ret_throws == VP_EXC_USER_STD || g_ret_throws == VP_EXC_USER_OTHER);
  the_tracer_obj.vp_tag = VP_TAG_USER_S_tracer; the_tracer_obj.previous = 0; g_tracer_obj_ptr = tracing ? &the_tracer_obj : (struct S_tracer *)0;
  int ret = MOCK_FUNC(&the_exps, "f", "int(int)", &x);

  __CPROVER_assert(elog_n >= 1 && elog[0] == E_FIND && find_list == &the_exps.active && find_param == &x, "[C01,C02] POST mock_func.selects_with_find_over_the_active_list_and_the_caller_s_argument");
  __CPROVER_assert(vp_lock_depth == 0, "[C14] POST mock_func.lock_released_on_every_path");
  if (!found) {
    __CPROVER_assert(elog_n == 2 && elog[1] == E_MISMATCH && mm_active == &the_exps.active && mm_saturated == &the_exps.saturated && mm_param == &x, "[C01,C15] POST mock_func.no_candidate_is_reported_once_with_both_lists_and_nothing_else_runs");
    __CPROVER_assert(vp_exc == VP_EXC_VIOLATION && vp_tr_n == 0, "[C01,C17] POST mock_func.no_candidate_does_not_return_and_is_not_traced");
  } else {
    __CPROVER_assert(elog_n >= 2 && elog[1] == E_RUN && run_self == &the_matcher && run_param == &x && run_saturated == &the_exps.saturated && lock_at_run == 1, "[C01,C02,C08] POST mock_func.the_candidate_runs_its_actions_under_the_lock");
    if (g_run_throws) {
      __CPROVER_assert(elog_n == 2 && vp_exc == g_run_throws, "[C08] POST mock_func.an_exception_from_run_actions_is_the_caller_s_and_no_value_is_computed");
    } else {
      __CPROVER_assert(elog_n == 3 && elog[2] == E_RET && ret_self == &the_matcher && ret_param == &x && lock_at_ret == 1, "[C08] POST mock_func.then_the_same_candidate_computes_the_return_value_once");
      __CPROVER_assert(vp_exc == g_ret_throws && (g_ret_throws || ret == g_ret_value), "[C08] POST mock_func.the_caller_gets_that_value_or_that_exception");
    }
    __CPROVER_assert(vp_tr_n == (tracing ? 1 : 0), "[C17] POST mock_func.one_trace_record_iff_a_tracer_is_installed_whatever_the_outcome");
    if (tracing) __CPROVER_assert(vp_tr[0].tracer == &the_tracer_obj && vp_tr[0].line == 77 && vp_tr[0].file == the_matcher.loc.file, "[C17] POST mock_func.the_record_goes_to_the_tracer_with_the_candidate_s_location");
    if (tracing) {
      int thrown = g_run_throws ? g_run_throws : g_ret_throws; const struct vp_string *m = &vp_tr[0].msg; _Bool what = 0;
      for (int k = 0; k < VP_TOK_CAP; k++) if (k < m->n && m->t[k].kind == VP_T_CSTR && m->t[k].p == (void *)&vp_stdexc_obj) what = 1;
      if (VP_EXC_IS_STD(thrown)) __CPROVER_assert(!m->overflow && what, "[C17] POST mock_func.a_std_exception_from_the_actions_or_the_return_is_traced_with_what");
      if (thrown == VP_EXC_USER_OTHER) __CPROVER_assert(!what && vp_lit_has(m->lit, "unknown"), "[C17] POST mock_func.any_other_exception_is_traced_as_unknown");
    }
  }
  __CPROVER_assert(vp_rep_n == (found ? 0 : 1) && !vp_terminated, "[C01,C15] POST mock_func.reports_nothing_itself_when_a_candidate_exists");
  __CPROVER_assert(found, "REACH glue.no_candidate"); __CPROVER_assert(!(found && g_run_throws), "REACH glue.run_actions_throws"); __CPROVER_assert(!(found && !g_run_throws && g_ret_throws), "REACH glue.return_throws");
  __CPROVER_assert(!(found && tracing), "REACH glue.traced");
  __CPROVER_assert(0, "REACH! g_glue");
}
int main(void) { VP_ENTRY(); return 0; }
