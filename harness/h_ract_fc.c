/* h_ract_fc.c - call_matcher::run_actions(): the decision logic before the action loop, as ONE unbounded modular
 * obligation (C01, C03, C05, C07, C15, C16).  The part of the lowered run_actions() before its loop is outlined
 * mechanically (ract__init); the virtual calls on the sequence handler (can_be_called, validate, retire_predecessors,
 * retire) are contract-only stubs that log their calls (their real bodies: seq_is.*, retire_is.*, world.* obligations);
 * everything else (is_forbidden, increment_call, is_saturated, report_forbidden_call, unlink, push_back, send_ok_report,
 * the lock) is the real lowered code.  Rings are is_fresh objects in the alias shapes of the list contracts. */
#define VP_TOK_CAP 1
#include "vp_models.h"
#include "unit.h"
#include "vp_models_impl.h"
typedef struct S_sequence_handler_base shb; typedef struct LE link;
int g_shape; _Bool g_can; unsigned long g_min, g_max, g_cnt;
enum { H_CAN = 1, H_VALIDATE, H_RETIRE_PRED, H_RETIRE };
int hlog[6]; int hlog_n; int h_validate_sev; const char *h_validate_name; unsigned long h_validate_line; unsigned long h_cnt_at_retire_pred;
static void hl(int k) { if (hlog_n < 6) hlog[hlog_n] = k; hlog_n++; }
_Bool VS_SHB_CAN_BE_CALLED(shb *self) { hl(H_CAN); return g_can; }
void VS_SHB_VALIDATE(shb *self, int sev, char *name, struct S_location loc)
{ hl(H_VALIDATE); h_validate_sev = sev; h_validate_name = name; h_validate_line = loc.line;
  /* contract of validate(): reports with the given severity through the (conforming) reporter */
  if (vp_rep_n < VP_LOG_CAP) { vp_rep[vp_rep_n].sev = sev; vp_rep[vp_rep_n].file = loc.file; vp_rep[vp_rep_n].line = loc.line; } vp_rep_n++; if (sev == 0) vp_exc = VP_EXC_VIOLATION; }
void VS_SHB_RETIRE_PRED(shb *self) { hl(H_RETIRE_PRED); h_cnt_at_retire_pred = self->call_count; }
void VS_SHB_RETIRE(shb *self) { hl(H_RETIRE); }
#define HTAG VP_TAG_USER_S_sequence_handler_base
#define SELF_LE(s) (&(s)->self->_b0._b0)
#define SAT_SENT(s) (&(s)->saturated_list->_b0._b0)
/* shapes: g_shape%2 : self in a ring of two (self + one neighbour) / of three or more;  (g_shape/2)%3 : saturated list empty / one / two or more */
#define RING2 ((g_shape % 2) == 0)
#define SATSH ((g_shape / 2) % 3)
#define RACT__INIT_CONTRACT \
  __CPROVER_requires(__CPROVER_is_fresh(s, sizeof(*s)) && __CPROVER_is_fresh(s->self, sizeof(*s->self)) && __CPROVER_is_fresh(s->self->sequences, sizeof(shb)) && __CPROVER_is_fresh(s->saturated_list, sizeof(*s->saturated_list))) \
  __CPROVER_requires(__CPROVER_is_fresh(s->params, sizeof(*s->params)) && __CPROVER_is_fresh(s->params->_0.p, sizeof(int)) && __CPROVER_is_fresh(s->self->_b0.name, 2) && __CPROVER_is_fresh(s->self->_b0.loc.file, 2)) \
  __CPROVER_requires(s->self->sequences->vp_tag == HTAG && 0 <= g_shape && g_shape < 6 && vp_exc == 0 && vp_rep_n == 0 && vp_ok_n == 0 && vp_lock_depth == 0 && hlog_n == 0 && !s->vp_returned && !s->vp_exited && !vp_terminated && vp_cstr_src == 0) \
  __CPROVER_requires(s->self->sequences->min_calls == g_min && s->self->sequences->max_calls == g_max && s->self->sequences->call_count == g_cnt && g_min <= g_max && (g_max == 0 ? g_cnt == 0 : g_cnt < g_max))   /* WF of an active expectation */ \
  __CPROVER_requires(RING2 ? (__CPROVER_is_fresh(SELF_LE(s)->next, sizeof(link)) && __CPROVER_pointer_equals(SELF_LE(s)->prev, SELF_LE(s)->next) && SELF_LE(s)->next->prev == SELF_LE(s) && SELF_LE(s)->next->next == SELF_LE(s)) \
                           : (__CPROVER_is_fresh(SELF_LE(s)->next, sizeof(link)) && __CPROVER_is_fresh(SELF_LE(s)->prev, sizeof(link)) && SELF_LE(s)->next->prev == SELF_LE(s) && SELF_LE(s)->prev->next == SELF_LE(s))) \
  __CPROVER_requires(SATSH == 0 ? (__CPROVER_pointer_equals(SAT_SENT(s)->next, SAT_SENT(s)) && __CPROVER_pointer_equals(SAT_SENT(s)->prev, SAT_SENT(s))) \
                   : SATSH == 1 ? (__CPROVER_is_fresh(SAT_SENT(s)->next, sizeof(link)) && __CPROVER_pointer_equals(SAT_SENT(s)->prev, SAT_SENT(s)->next) && SAT_SENT(s)->next->prev == SAT_SENT(s) && SAT_SENT(s)->next->next == SAT_SENT(s)) \
                   : (__CPROVER_is_fresh(SAT_SENT(s)->next, sizeof(link)) && __CPROVER_is_fresh(SAT_SENT(s)->prev, sizeof(link)) && SAT_SENT(s)->next->prev == SAT_SENT(s) && SAT_SENT(s)->prev->next == SAT_SENT(s))) \
  __CPROVER_assigns(__CPROVER_object_whole(s), s->self->reported, s->self->sequences->call_count, vp_exc, vp_rep_n, vp_ok_n, vp_lock_depth, vp_lock_max, hlog_n, h_validate_sev, h_validate_name, h_validate_line, h_cnt_at_retire_pred, vp_cstr_src, vp_terminated, \
                    __CPROVER_object_whole(hlog), __CPROVER_object_whole(vp_rep), __CPROVER_object_whole(vp_ok), \
                    SELF_LE(s)->next, SELF_LE(s)->prev, SELF_LE(s)->next->prev, SELF_LE(s)->prev->next, SAT_SENT(s)->prev, SAT_SENT(s)->next, SAT_SENT(s)->prev->next) \
  /* (1) forbidding expectation: one fatal report with its location, marked reported, nothing else happens */ \
  __CPROVER_ensures(g_max != 0 || (s->vp_returned && vp_exc == VP_EXC_VIOLATION && vp_rep_n == 1 && vp_rep[0].sev == 0 && vp_rep[0].file == s->self->_b0.loc.file && vp_rep[0].line == s->self->_b0.loc.line && \
                                   s->self->reported && s->self->sequences->call_count == g_cnt && hlog_n == 0 && vp_ok_n == 0 && vp_lock_depth == 0 && SELF_LE(s)->next != SELF_LE(s))) \
  /* (2) not permitted by its sequences: validate(fatal, name, loc) is the only handler call after the query; count, lists and sequences untouched; no OK report; lock released */ \
  __CPROVER_ensures(g_max == 0 || g_can || (s->vp_returned && vp_exc == VP_EXC_VIOLATION && hlog_n == 2 && hlog[0] == H_CAN && hlog[1] == H_VALIDATE && h_validate_sev == 0 && \
                                   h_validate_name == s->self->_b0.name && h_validate_line == s->self->_b0.loc.line && s->self->sequences->call_count == g_cnt && vp_ok_n == 0 && vp_lock_depth == 0 && SELF_LE(s)->next != SELF_LE(s))) \
  /* (3) accepted: no report, counted exactly once */ \
  __CPROVER_ensures(g_max == 0 || !g_can || (!s->vp_returned && vp_exc == 0 && vp_rep_n == 0 && s->self->sequences->call_count == g_cnt + 1)) \
  /* (4) accepted: predecessors are retired on EVERY accepted call, after counting */ \
  __CPROVER_ensures(g_max == 0 || !g_can || (hlog_n >= 2 && hlog[0] == H_CAN && hlog[1] == H_RETIRE_PRED && h_cnt_at_retire_pred == g_cnt + 1)) \
  /* (5) accepted: exactly one OK report naming the expectation, before any side effect runs */ \
  __CPROVER_ensures(g_max == 0 || !g_can || (vp_ok_n == 1 && vp_ok[0].msg == s->self->_b0.name)) \
  /* (6) accepted: the lock is held for the side effects */ \
  __CPROVER_ensures(g_max == 0 || !g_can || (vp_lock_depth == 1 && s->lock.held)) \
  /* (7) saturation <=> count+1 == max: its sequence handles are retired, it leaves the active list and is appended to the saturated list */ \
  __CPROVER_ensures(g_max == 0 || !g_can || g_cnt + 1 != g_max || (hlog_n == 3 && hlog[2] == H_RETIRE && SAT_SENT(s)->prev == SELF_LE(s) && SELF_LE(s)->next == SAT_SENT(s) && SELF_LE(s)->prev->next == SELF_LE(s) && \
                                   __CPROVER_old(SELF_LE(s)->next)->prev == __CPROVER_old(SELF_LE(s)->prev) && __CPROVER_old(SELF_LE(s)->prev)->next == __CPROVER_old(SELF_LE(s)->next))) \
  __CPROVER_ensures(g_max == 0 || !g_can || g_cnt + 1 == g_max || (hlog_n == 2 && SELF_LE(s)->next == __CPROVER_old(SELF_LE(s)->next) && SELF_LE(s)->prev == __CPROVER_old(SELF_LE(s)->prev) && SAT_SENT(s)->prev == __CPROVER_old(SAT_SENT(s)->prev))) \
  /* the action loop starts at the first side effect */ \
  __CPROVER_ensures(s->vp_returned || (s->__begin0.p == s->self->actions._b0.next && s->__end0.p == &s->self->actions._b0))
#define RACT__ITER_CONTRACT
#define RACT__EXIT_CONTRACT
#include "unit.c"
#include "ract_outlined.c"
int nondet_int(void); unsigned long nondet_ulong(void); _Bool nondet_bool(void);
void f_init(void) { struct ract_st *s; g_shape = nondet_int(); g_can = nondet_bool(); g_min = nondet_ulong(); g_max = nondet_ulong(); g_cnt = nondet_ulong(); ract__init(s);
  __CPROVER_assert(g_max != 0, "REACH run_actions forbidden"); __CPROVER_assert(g_max == 0 || g_can, "REACH run_actions out of sequence");
  __CPROVER_assert(!(g_max != 0 && g_can && g_cnt + 1 == g_max && g_shape == 0), "REACH run_actions saturating shape 0");
  __CPROVER_assert(!(g_max != 0 && g_can && g_cnt + 1 == g_max && g_shape == 5), "REACH run_actions saturating shape 5");
  __CPROVER_assert(!(g_max != 0 && g_can && g_cnt + 1 != g_max), "REACH run_actions accepted not saturating"); }
int main(void) { VP_ENTRY(); return 0; }
