/* h_find_is.c - UNBOUNDED inductive proof of find()'s selection rule (C02), for lists of any length.
 * The loop of the lowered find() is outlined mechanically (tools/outline.py) into init / one iteration / exit over an
 * explicit state struct; each part is a DFCC function contract.  matches() and sequence_cost() of a list node are
 * abstracted by ghost fields (g_matches, g_cost) returned by contract-only stubs (their real bodies are decided by the
 * world.* obligations).  Ghost g_pos = position in the ring, g_n = ring length, g_W = an arbitrary witness node:
 * the postcondition is stated for W, hence for every node (no quantifier, DESIGN.md 3.4).
 *   WF instance used: the successor of the node at position k is the sentinel iff k+1 == g_n, else the node at k+1. */
#define VP_TOK_CAP 1
#include "vp_models.h"
#include "unit.h"
#include "vp_models_impl.h"
typedef struct CMB node; typedef struct LE link;
unsigned long g_n; link *g_sent; node *g_W; int g_shape;
_Bool VS_CMB_MATCHES(node *self, struct vp_tuple_vp_refw_int *p) { return self->g_matches; }
unsigned VS_CMB_COST(node *self) { return self->g_cost; }

#define NODE_OF(l) ((node *)(l))
#define POS(l) ((l) == g_sent ? g_n : NODE_OF(l)->g_pos)
#define CUR(s) ((s)->__begin0.p)
#define INV(s) ( \
  ((s)->first_match == 0 || ((s)->first_match->g_pos < POS(CUR(s)) && (s)->first_match->g_matches && (s)->first_match->g_cost == (s)->lowest_cost && (s)->lowest_cost != 0)) && \
  (!((s)->first_match == 0 && g_W->g_pos < POS(CUR(s))) || !g_W->g_matches) && \
  (!(g_W->g_pos < POS(CUR(s)) && g_W->g_matches) || (g_W->g_cost != 0 && (s)->first_match != 0 && (g_W->g_cost > (s)->lowest_cost || (g_W->g_cost == (s)->lowest_cost && (s)->first_match->g_pos <= g_W->g_pos)))) )
/* what find() promises about its result r with respect to the witness W (= the C02 selection rule) */
#define POST(r) ( \
  ((r) != 0 || !g_W->g_matches) && \
  ((r) == 0 || ((r)->g_matches && (!g_W->g_matches || g_W->g_cost > (r)->g_cost || (g_W->g_cost == (r)->g_cost && (r)->g_pos <= g_W->g_pos)))) )
#define USER_TAG VP_TAG_USER_S_list_elem_call_matcher_base_int_int
#define FRESH_NODE(l) (__CPROVER_is_fresh(l, sizeof(node)) && NODE_OF(l)->_b0.vp_tag == USER_TAG && NODE_OF(l)->g_pos < g_n)
#define FRESH_CMB(p) (__CPROVER_is_fresh(p, sizeof(node)) && (p)->_b0.vp_tag == USER_TAG && (p)->g_pos < g_n)

/* alias shapes: cur in {W, other node, sentinel}; first_match in {null, W, other node}; cur->next in {sentinel, W, other node} */
#define S_CUR (g_shape % 3)
#define S_FM ((g_shape / 3) % 3)
#define S_NXT ((g_shape / 9) % 3)
#define COMMON_REQ \
  __CPROVER_requires(__CPROVER_is_fresh(s, sizeof(*s)) && __CPROVER_is_fresh(g_sent, sizeof(link)) && __CPROVER_is_fresh(g_W, sizeof(node))) \
  __CPROVER_requires(g_W->_b0.vp_tag == USER_TAG && g_W->g_pos < g_n && 0 <= g_shape && g_shape < 27) \
  __CPROVER_requires(__CPROVER_pointer_equals(s->__end0.p, g_sent)) \
  __CPROVER_requires(S_CUR == 0 ? __CPROVER_pointer_equals(CUR(s), &g_W->_b0) : S_CUR == 1 ? (FRESH_NODE(CUR(s)) && NODE_OF(CUR(s))->g_pos != g_W->g_pos) : __CPROVER_pointer_equals(CUR(s), g_sent)) \
  __CPROVER_requires(S_FM == 0 ? __CPROVER_pointer_equals(s->first_match, (node *)0) : S_FM == 1 ? __CPROVER_pointer_equals(s->first_match, g_W) \
                     : (FRESH_CMB(s->first_match) && s->first_match->g_pos != g_W->g_pos && (S_CUR == 2 || s->first_match->g_pos != NODE_OF(CUR(s))->g_pos))) \
  __CPROVER_requires(!s->vp_returned && !s->vp_exited && vp_exc == 0)

#define FIND__ITER_CONTRACT COMMON_REQ \
  __CPROVER_requires(S_CUR == 2 || (S_NXT == 0 ? (__CPROVER_pointer_equals(CUR(s)->next, g_sent) && NODE_OF(CUR(s))->g_pos + 1 == g_n) \
                                  : S_NXT == 1 ? (__CPROVER_pointer_equals(CUR(s)->next, &g_W->_b0) && g_W->g_pos == NODE_OF(CUR(s))->g_pos + 1) \
                                  : (FRESH_NODE(CUR(s)->next) && NODE_OF(CUR(s)->next)->g_pos == NODE_OF(CUR(s))->g_pos + 1 && NODE_OF(CUR(s)->next)->g_pos != g_W->g_pos))) \
  __CPROVER_requires(INV(s)) \
  __CPROVER_assigns(s->first_match, s->lowest_cost, s->__begin0.p, s->vp_returned, s->vp_exited, s->vp_retval) \
  __CPROVER_ensures(s->vp_returned || s->vp_exited || (INV(s) && CUR(s) == __CPROVER_old(CUR(s)->next))) \
  __CPROVER_ensures(!s->vp_returned || (POST(s->vp_retval) && vp_exc == 0)) \
  __CPROVER_ensures(!s->vp_exited || (__CPROVER_old(CUR(s)) == g_sent && s->first_match == __CPROVER_old(s->first_match) && s->lowest_cost == __CPROVER_old(s->lowest_cost)))

/* exit: invariant at the sentinel (every node is before it) => the selection rule for the returned first_match */
#define FIND__EXIT_CONTRACT COMMON_REQ \
  __CPROVER_requires(S_CUR == 2 && INV(s)) \
  __CPROVER_assigns(s->vp_returned, s->vp_retval) \
  __CPROVER_ensures(s->vp_returned && POST(s->vp_retval))

/* init: the invariant holds before the first iteration (cursor = first node or the sentinel of an empty list) */
#define FIND__INIT_CONTRACT \
  __CPROVER_requires(__CPROVER_is_fresh(s, sizeof(*s)) && __CPROVER_is_fresh(s->list, sizeof(*s->list)) && __CPROVER_is_fresh(g_W, sizeof(node)) && __CPROVER_is_fresh(g_sent, 1) && (g_shape == 0 || g_W->g_pos < g_n)) \
  __CPROVER_requires(g_shape == 0 ? (__CPROVER_pointer_equals(s->list->_b0._b0.next, &s->list->_b0._b0) && g_n == 0) \
                   : g_shape == 1 ? (__CPROVER_pointer_equals(s->list->_b0._b0.next, &g_W->_b0) && g_W->g_pos == 0) \
                   : (FRESH_NODE(s->list->_b0._b0.next) && NODE_OF(s->list->_b0._b0.next)->g_pos == 0 && g_W->g_pos != 0)) \
  __CPROVER_assigns(s->first_match, s->lowest_cost, s->__range2, s->__begin0, s->__end0) \
  __CPROVER_ensures(s->__end0.p == &s->list->_b0._b0 && CUR(s) == s->list->_b0._b0.next && s->first_match == 0) \
  __CPROVER_ensures(g_W->g_pos >= (CUR(s) == &s->list->_b0._b0 ? g_n : NODE_OF(CUR(s))->g_pos))   /* no node lies before the cursor: INV holds with first_match == 0 */

#include "unit.c"
#include "find_outlined.c"
int nondet_int(void);
void is_iter(void) { struct find_st *s; g_shape = nondet_int(); find__iter(s);
  __CPROVER_assert(g_shape != 0, "REACH shape cur=W fm=null next=sentinel"); __CPROVER_assert(g_shape != 1 + 3 * 2 + 9 * 1, "REACH shape cur=node fm=node next=W");
  __CPROVER_assert(g_shape != 2, "REACH shape cur=sentinel"); __CPROVER_assert(g_shape != 1 + 3 * 1 + 9 * 0, "REACH shape cur=node fm=W next=sentinel"); }
void is_exit(void) { struct find_st *s; g_shape = nondet_int(); find__exit(s); __CPROVER_assert(g_shape != 2, "REACH exit fm=null"); __CPROVER_assert(g_shape != 2 + 3, "REACH exit fm=W"); __CPROVER_assert(g_shape != 2 + 6, "REACH exit fm=node"); }
void is_init(void) { struct find_st *s; g_shape = nondet_int(); find__init(s); __CPROVER_assert(g_shape != 0, "REACH init empty"); __CPROVER_assert(g_shape != 1, "REACH init first=W"); __CPROVER_assert(g_shape != 2, "REACH init first=node"); }
int main(void) { VP_ENTRY(); return 0; }
