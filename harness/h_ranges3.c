/* h_ranges3.c - the range-of-values flavours of the range matchers (C11, BOUNDED): range = C array of length 3, element values
 * given as a C array seen through mini_span<int>, whose length L is symbolic in 0..4 (one instantiation serves every L).
 * std::equal / std::mismatch / std::find_if are modelled as the loops they stand for (DESIGN 2.1). */
#define VP_TOK_CAP 1
#include "vp_models.h"
#include "unit.h"
#include "vp_models_impl.h"
int nondet_int(void); unsigned nondet_unsigned(void);
struct vp_carr_int_3 arr; int vals[4]; unsigned L; int in_arr[3]; int in_vals[4]; unsigned in_L;
#include "unit.c"
static void init(void) { for (int j = 0; j < 3; j++) { in_arr[j] = nondet_int(); arr.a[j] = in_arr[j]; } for (int j = 0; j < 4; j++) { in_vals[j] = nondet_int(); vals[j] = in_vals[j]; } in_L = nondet_unsigned(); L = in_L; __CPROVER_assume(L <= 4); }
#define U(PM) PM##_T1 u; u.p = &arr;
#define SPAN(m) (m).value._0.begin_ = &vals[0]; (m).value._0.end_ = &vals[0] + L;
static int cnt_vals(int x) { int c = 0; for (unsigned i = 0; i < 4; i++) if (i < L && vals[i] == x) c++; return c; }
static int cnt_arr(int x) { return (arr.a[0] == x) + (arr.a[1] == x) + (arr.a[2] == x); }
void rr_is_starts_ends(void) { init(); U(RGR_IS) RGR_IS_T0 mi; RGR_STARTS_T0 ms; RGR_ENDS_T0 me; SPAN(mi) SPAN(ms) SPAN(me)
  _Bool prefix = L <= 3, suffix = L <= 3;
  for (unsigned i = 0; i < 3; i++) if (i < L && L <= 3) { if (arr.a[i] != vals[i]) prefix = 0; if (arr.a[3 - L + i] != vals[i]) suffix = 0; }
  __CPROVER_assert(RGR_IS(&mi, &u) == (L == 3 && prefix), "[C11] POST range_is_values_range_accepts_exactly_equal_length_element_wise_matches");
  __CPROVER_assert(RGR_STARTS(&ms, &u) == prefix, "[C11] POST range_starts_with_values_range_accepts_exactly_prefix_matches");
  __CPROVER_assert(RGR_ENDS(&me, &u) == suffix, "[C11] POST range_ends_with_values_range_accepts_exactly_suffix_matches");
  __CPROVER_assert(0, "REACH! rr_is_starts_ends"); }
void rr_includes(void) { init(); U(RGR_INC) RGR_INC_T0 m; SPAN(m)
  _Bool inc = 1;   /* every listed value occurs in the range at least as often as it is listed: a matching to distinct members exists */
  for (unsigned i = 0; i < 4; i++) if (i < L && cnt_arr(vals[i]) < cnt_vals(vals[i])) inc = 0;
  __CPROVER_assert(RGR_INC(&m, &u) == inc, "[C11] POST range_includes_values_range_accepts_iff_listed_values_match_distinct_members");
  __CPROVER_assert(0, "REACH! rr_includes"); }
void rr_permutation(void) { init(); U(RGR_PERM) RGR_PERM_T0 m; SPAN(m)
  _Bool perm = (L == 3);
  for (unsigned i = 0; i < 3; i++) if (L == 3 && cnt_arr(vals[i]) != cnt_vals(vals[i])) perm = 0;
  __CPROVER_assert(RGR_PERM(&m, &u) == perm, "[C11] POST range_is_permutation_values_range_is_multiset_equality");
  __CPROVER_assert(0, "REACH! rr_permutation"); }
int main(void) { VP_ENTRY(); return 0; }
