/* h_lifetime.c - deathwatched objects and REQUIRE_DESTRUCTION monitors (C13; C05 destruction part; C14; C15).
 * Objects are created through the REAL constructors (lowered); sequences are attached by assignment.
 * W_SEQ (compile-time heap shape): 0 = monitor not sequenced, 1 = sequenced and first in line,
 *                                  2 = sequenced behind one pending predecessor (free bounds/count). */
#define VP_TOK_CAP 1
#include "vp_models.h"
#include "unit.h"
#include "vp_models_impl.h"
int nondet_int(void); unsigned long nondet_ulong(void); _Bool nondet_bool(void);
#ifndef W_SEQ
#define W_SEQ 0
#endif

/* std::make_unique<sequence_handler<0>>(): allocate + the real constructor */
struct SH0 *vpx_make_unique(void) { struct SH0 *p = VP_NEW(struct SH0); SH0_CTOR(p); return p; }
#define UNREACHABLE_STUB(ret, name, params, retval) ret name params { __CPROVER_assert(0, "DISPATCH: virtual call on an object of unknown dynamic type"); __CPROVER_assume(0); return retval; }
UNREACHABLE_STUB(_Bool, VS_SHB_CAN_BE_CALLED, (struct S_sequence_handler_base *self), 0)
UNREACHABLE_STUB(void, VS_SHB_RETIRE_PRED, (struct S_sequence_handler_base *self), )
UNREACHABLE_STUB(void, VS_SHB_VALIDATE, (struct S_sequence_handler_base *self, int s, char *n, struct S_location l), )
UNREACHABLE_STUB(void, VS_DTOR_SHB, (struct S_sequence_handler_base *self), )
UNREACHABLE_STUB(void, VS_DTOR_SH0, (struct SH0 *self), )
#include "unit.c"

char nm_obj[2], nm_inv[2], nm_call[2], nm_file[2], nm_seq[2], nm_pfile[2];
struct DW *dw; struct LM *mon; struct SM *seq_host; struct ST *seq; struct SH1 *mh; struct SH1 *ph;
unsigned long in_pmin, in_pmax, in_pcnt;

static struct LM *new_monitor(struct DW *d, unsigned long line)
{
  struct LM *m = VP_NEW(struct LM);
  struct S_location l; l.file = nm_file; l.line = line;
  LM_CTOR(m, d, nm_obj, nm_inv, nm_call, l);
  return m;
}
static void ring_append(struct S_list_elem_sequence_matcher *t, struct SM *m, struct S_sequence_handler_base *h, char *file, unsigned long line)
{
  m->_b0.vp_tag = VP_TAG_S_sequence_matcher; m->seq_name = nm_seq; m->exp_name = nm_inv; m->exp_loc.file = file; m->exp_loc.line = line;
  m->sequence_handler = h; m->seq = seq;
  struct S_list_elem_sequence_matcher *e = &m->_b0;
  e->prev = t->prev; e->next = t; t->prev->next = e; t->prev = e;
}
/* attach the monitor to a sequence the way IN_SEQUENCE does: its handler becomes a sequence_handler<1>
 * that keeps the limits/count of the old one (default 1,1,0) and registers last in the sequence */
static void attach_sequence(void)
{
  seq_host = VP_NEW(struct SM); seq = (struct ST *)seq_host;   /* see world.h: sentinel hosted in an element-typed object */
  seq_host->seq_name = 0; seq_host->exp_name = 0; seq_host->exp_loc.file = 0; seq_host->exp_loc.line = 0; seq_host->sequence_handler = 0; seq_host->seq = 0;
  seq_host->_b0.vp_tag = VP_TAG_S_list_sequence_matcher; seq_host->_b0.next = &seq_host->_b0; seq_host->_b0.prev = &seq_host->_b0;
  if (W_SEQ == 2) {
    ph = VP_NEW(struct SH1); ph->_b0.vp_tag = VP_TAG_S_sequence_handler_1;
    in_pmin = nondet_ulong(); in_pmax = nondet_ulong(); in_pcnt = nondet_ulong();
    __CPROVER_assume(in_pmin <= in_pmax && in_pcnt < in_pmax);
    ph->_b0.min_calls = in_pmin; ph->_b0.max_calls = in_pmax; ph->_b0.call_count = in_pcnt;
    ring_append(&seq_host->_b0, &ph->matchers.matchers.e[0], &ph->_b0, nm_pfile, 7);
  }
  mh = VP_NEW(struct SH1); mh->_b0.vp_tag = VP_TAG_S_sequence_handler_1;
  mh->_b0.min_calls = mon->sequences->min_calls; mh->_b0.max_calls = mon->sequences->max_calls; mh->_b0.call_count = mon->sequences->call_count;
  ring_append(&seq_host->_b0, &mh->matchers.matchers.e[0], &mh->_b0, nm_file, 42);
  free(mon->sequences);
  mon->sequences = &mh->_b0;
}
static _Bool linked(struct SM *m) { return m->_b0.next != &m->_b0; }

/* ---- destruction with no requirement alive: exactly one non-fatal "unexpected destruction" */
void l_unexpected(void)
{
  dw = VP_NEW(struct DW); DW_CTOR(dw);
  __CPROVER_assert(dw->trompeloeil_lifetime_monitor.p == 0, "[C13] POST ctor.no_requirement_initially");
  DW_DTOR(dw);
  __CPROVER_assert(vp_rep_n == 1 && vp_rep[0].sev == 1, "[C13,C15] POST unexpected.exactly_one_nonfatal_report");
  __CPROVER_assert(vp_exc == 0 && !vp_terminated && vp_lock_depth == 0, "[C15,C14] POST unexpected.destructor_does_not_throw");
  __CPROVER_assert(0, "REACH! unexpected.end");
}

/* ---- destruction while a requirement is alive (optionally sequenced) */
void l_expected(void)
{
  dw = VP_NEW(struct DW); DW_CTOR(dw);
  mon = new_monitor(dw, 42);
  __CPROVER_assert(dw->trompeloeil_lifetime_monitor.p == mon && mon->object_monitor == &dw->trompeloeil_lifetime_monitor.p, "[C13] POST monitor_ctor.registered_with_the_object");
  __CPROVER_assert(!LM_IS_SATISFIED(mon) && !LM_IS_SATURATED(mon), "[C13] POST monitor_ctor.unsatisfied_while_object_alive");
  if (W_SEQ) attach_sequence();
  _Bool eligible = W_SEQ != 2 || in_pcnt >= in_pmin;
  DW_DTOR(dw);
  free(dw);
  __CPROVER_assert(LM_IS_SATISFIED(mon) && LM_IS_SATURATED(mon), "[C13,C05] POST expected.requirement_satisfied_and_saturated_from_then_on");
  __CPROVER_assert(vp_rep_n == (eligible ? 0 : 1), "[C13,C05] POST expected.report_iff_destruction_is_out_of_sequence");
  if (vp_rep_n >= 1) __CPROVER_assert(vp_rep[0].sev == 1 && vp_rep[0].file == nm_file && vp_rep[0].line == 42, "[C05,C15] POST expected.out_of_sequence_report_is_nonfatal_with_monitor_location");
  __CPROVER_assert(vp_exc == 0 && !vp_terminated && vp_lock_depth == 0, "[C15,C14] POST expected.destructor_does_not_throw");
  if (W_SEQ == 2) __CPROVER_assert(!linked(&ph->matchers.matchers.e[0]), "[C05] POST expected.predecessors_retired_once_the_destruction_happened");
  if (W_SEQ) __CPROVER_assert(mon->sequences->call_count == 1, "[C05] POST expected.destruction_counts_as_having_happened");
  /* the requirement is released after the object died: quiet, and it must not touch the dead object */
  int before = vp_rep_n;
  LM_DTOR(mon);
  __CPROVER_assert(vp_rep_n == before && vp_exc == 0, "[C13] POST expected.late_release_reports_nothing");
  if (W_SEQ) __CPROVER_assert(seq_host->_b0.next == &seq_host->_b0 && seq_host->_b0.prev == &seq_host->_b0, "[C06,C14] POST expected.released_monitor_leaves_its_sequence");
  __CPROVER_assert(eligible, "REACH expected.out_of_sequence");
  __CPROVER_assert(0, "REACH! expected.end");
}

/* ---- the requirement ends while the object is still alive */
void l_released_first(void)
{
  dw = VP_NEW(struct DW); DW_CTOR(dw);
  mon = new_monitor(dw, 42);
  if (W_SEQ) attach_sequence();
  LM_DTOR(mon);
  free(mon);
  __CPROVER_assert(vp_rep_n == 1 && vp_rep[0].sev == 1 && vp_rep[0].file == nm_file && vp_rep[0].line == 42, "[C13,C15] POST released_first.exactly_one_nonfatal_still_alive_report_with_location");
  __CPROVER_assert(dw->trompeloeil_lifetime_monitor.p == 0, "[C13,C14] POST released_first.object_forgets_the_requirement");
  __CPROVER_assert(vp_exc == 0 && !vp_terminated && vp_lock_depth == 0, "[C15,C14] POST released_first.destructor_does_not_throw");
  DW_DTOR(dw);
  __CPROVER_assert(vp_rep_n == 2 && vp_rep[1].sev == 1, "[C13] POST released_first.later_death_is_unexpected");
  __CPROVER_assert(0, "REACH! released_first.end");
}

/* ---- two requirements alive for one object (C13: "one or more ... each of them satisfied") */
void l_two_monitors(void)
{
  dw = VP_NEW(struct DW); DW_CTOR(dw);
  struct LM *m0 = new_monitor(dw, 41);
  struct LM *m1 = new_monitor(dw, 42);
  DW_DTOR(dw);
  free(dw);
  __CPROVER_assert(vp_rep_n == 0, "[C13] POST two_monitors.no_report");
  __CPROVER_assert(LM_IS_SATISFIED(m1) && LM_IS_SATURATED(m1), "[C13] POST two_monitors.newest_requirement_satisfied");
  __CPROVER_assert(LM_IS_SATISFIED(m0) && LM_IS_SATURATED(m0), "[C13] POST two_monitors.every_live_requirement_satisfied");
  LM_DTOR(m1); LM_DTOR(m0);
  __CPROVER_assert(vp_rep_n == 0, "[C13] POST two_monitors.releases_are_quiet");
  __CPROVER_assert(0, "REACH! two_monitors.end");
}

/* ---- two requirements for one object, both released while the object is alive, in either order: "a requirement that ends while
 * the object is still alive reports exactly one non-fatal 'still alive'" - each of them */
_Bool in_inner_first;
void l_two_released(void)
{
  dw = VP_NEW(struct DW); DW_CTOR(dw);
  struct LM *m0 = new_monitor(dw, 41);
  struct LM *m1 = new_monitor(dw, 42);
  in_inner_first = nondet_bool();
  struct LM *first = in_inner_first ? m1 : m0, *second = in_inner_first ? m0 : m1;
  LM_DTOR(first);
  __CPROVER_assert(vp_rep_n == 1 && vp_rep[0].sev == 1 && vp_rep[0].line == (in_inner_first ? 42 : 41), "[C13,C15] POST two_released.the_first_release_is_one_nonfatal_still_alive_report_with_its_own_location");
  LM_DTOR(second);
  __CPROVER_assert(vp_rep_n == 2 && vp_rep[1].sev == 1 && vp_rep[1].line == (in_inner_first ? 41 : 42), "[C13,C15] POST two_released.the_second_release_is_one_nonfatal_still_alive_report_with_its_own_location");
  __CPROVER_assert(vp_exc == 0 && !vp_terminated, "[C15,C14] POST two_released.destructors_do_not_throw");
  __CPROVER_assert(dw->trompeloeil_lifetime_monitor.p == 0, "[C13,C14] POST two_released.the_object_has_forgotten_both");
  free(m0); free(m1);
  DW_DTOR(dw);
  __CPROVER_assert(vp_rep_n == 3 && vp_rep[2].sev == 1, "[C13] POST two_released.the_later_death_is_unexpected");
  __CPROVER_assert(in_inner_first, "REACH two_released.outer_first"); __CPROVER_assert(!in_inner_first, "REACH two_released.inner_first");
  __CPROVER_assert(0, "REACH! two_released.end");
}

/* ---- copies and moves do not inherit; the original keeps its own, also when assigned to */
void l_copy_move_assign(void)
{
  dw = VP_NEW(struct DW); DW_CTOR(dw);
  mon = new_monitor(dw, 42);
  struct DW *c = VP_NEW(struct DW); DW_COPY(c, dw);
  struct DW *m = VP_NEW(struct DW); DW_MOVE(m, dw);
  __CPROVER_assert(c->trompeloeil_lifetime_monitor.p == 0, "[C13] POST copy.does_not_inherit_the_requirement");
  struct DW *cc = VP_NEW(struct DW); DW_COPY_CONST(cc, dw);        /* copy from a const lvalue: the implicit copy constructor */
  __CPROVER_assert(cc->trompeloeil_lifetime_monitor.p == 0, "[C13] POST copy_from_const.does_not_inherit_the_requirement");
  DW_DTOR(cc); free(cc);
  __CPROVER_assert(vp_rep_n == 1 && !LM_IS_SATISFIED(mon), "[C13] POST copy_from_const.the_death_of_the_copy_is_unexpected_and_does_not_satisfy_the_original_s_requirement");
  vp_rep_n = 0;
  __CPROVER_assert(m->trompeloeil_lifetime_monitor.p == 0, "[C13] POST move.does_not_inherit_the_requirement");
  __CPROVER_assert(dw->trompeloeil_lifetime_monitor.p == mon, "[C13] POST copy_move.original_keeps_its_requirement");
  struct DW *o = VP_NEW(struct DW); DW_CTOR(o);
  struct LM *mo = new_monitor(o, 43);
  DW_ASSIGN(dw, o);
  __CPROVER_assert(dw->trompeloeil_lifetime_monitor.p == mon, "[C13,C14] POST assign.target_keeps_its_own_requirement");
  __CPROVER_assert(o->trompeloeil_lifetime_monitor.p == mo, "[C13] POST assign.source_keeps_its_own_requirement");
  DW_ASSIGN(c, dw);
  __CPROVER_assert(c->trompeloeil_lifetime_monitor.p == 0, "[C13] POST assign.does_not_inherit_the_requirement");
  DW_DTOR(dw); free(dw);
  __CPROVER_assert(vp_rep_n == 0 && LM_IS_SATISFIED(mon), "[C13] POST assign.assigned_to_object_dies_as_required");
  LM_DTOR(mon);
  __CPROVER_assert(vp_rep_n == 0 && vp_exc == 0, "[C13,C14] POST assign.release_after_death_is_quiet_and_safe");
  __CPROVER_assert(0, "REACH! copy_move_assign.end");
}
int main(void) { VP_ENTRY(); return 0; }
