/* h_dtor_is.c - UNBOUNDED inductive steps for the two "unlink everything" loops:
 *   call_matcher_list::decommission()  (C04, C14: the mock dies first: every expectation of the list is told once
 *                                        (mock_destroyed) and then leaves the list; the lock is released)
 *   sequence_type::~sequence_type()    (C06, C14, C15: every registered handle leaves the sequence; exactly one
 *                                        non-fatal report iff at least one was registered; never throws)
 * Loops outlined mechanically from the lowered functions; ghost g_k = number of nodes already processed, W = an
 * arbitrary node processed earlier (must stay unlinked).  mock_destroyed() is a contract-only stub here (it counts its
 * calls); its real body is exercised by the world.mockdtor obligations. */
#define VP_TOK_CAP 1
#include "vp_models.h"
#include "unit.h"
#include "vp_models_impl.h"
unsigned long g_n, g_k; int g_shape;
typedef struct CMB enode; typedef struct LE elink; enode *g_W;
typedef struct SM snode; typedef struct LES slink; snode *g_SW;
void VS_MOCK_DESTROYED(enode *self) { self->g_md_calls++; }
#define UNREG_E(nd) ((nd)->_b0.next == &(nd)->_b0 && (nd)->_b0.prev == &(nd)->_b0)
#define UNREG_S(nd) ((nd)->_b0.next == &(nd)->_b0 && (nd)->_b0.prev == &(nd)->_b0)
#define ETAG VP_TAG_USER_S_list_elem_call_matcher_base_int_int

/* ------------------------------------------------------------------ decommission: shapes = cursor {sentinel, node} x successor {sentinel, node} */
#define DSENT(s) (&(s)->self->_b0._b0)
#define DCUR(s) ((s)->iter.p)
#define DECOM__ITER_CONTRACT \
  __CPROVER_requires(__CPROVER_is_fresh(s, sizeof(*s)) && __CPROVER_is_fresh(s->self, sizeof(*s->self)) && __CPROVER_is_fresh(g_W, sizeof(enode)) && 0 <= g_shape && g_shape < 3 && vp_exc == 0 && !s->vp_returned && !s->vp_exited) \
  __CPROVER_requires(s->e.p == DSENT(s) && s->lock.held && vp_lock_depth == 1 && UNREG_E(g_W) && g_W->g_md_calls == 1 && g_W->g_pos < g_k && g_k <= g_n) \
  __CPROVER_requires(g_shape == 0 ? (__CPROVER_pointer_equals(DCUR(s), DSENT(s)) && g_k == g_n) \
                   : (__CPROVER_is_fresh(DCUR(s), sizeof(enode)) && ((enode *)DCUR(s))->_b0.vp_tag == ETAG && ((enode *)DCUR(s))->g_pos == g_k && g_k < g_n && ((enode *)DCUR(s))->g_md_calls == 0 && \
                      DCUR(s)->prev == DSENT(s) && __CPROVER_pointer_equals(DSENT(s)->next, DCUR(s)))) \
  __CPROVER_requires(g_shape == 0 || (g_shape == 1 ? (__CPROVER_pointer_equals(DCUR(s)->next, DSENT(s)) && __CPROVER_pointer_equals(DSENT(s)->prev, DCUR(s)) && g_k + 1 == g_n) \
                                                   : (__CPROVER_is_fresh(DCUR(s)->next, sizeof(enode)) && DCUR(s)->next->prev == DCUR(s) && ((enode *)DCUR(s)->next)->g_pos == g_k + 1))) \
  __CPROVER_assigns(s->iter.p, s->vp_returned, s->vp_exited; g_shape != 0: DCUR(s)->next, DCUR(s)->prev, DSENT(s)->next, DCUR(s)->next->prev, ((enode *)DCUR(s))->g_md_calls) \
  __CPROVER_ensures(!s->vp_returned)                                                                          /* never leaves by exception */ \
  __CPROVER_ensures(s->vp_exited || (DCUR(s) == __CPROVER_old(DCUR(s)->next) && DSENT(s)->next == DCUR(s) && DCUR(s)->prev == DSENT(s) && \
                    UNREG_E((enode *)__CPROVER_old(DCUR(s))) && ((enode *)__CPROVER_old(DCUR(s)))->g_md_calls == 1 && UNREG_E(g_W) && g_W->g_md_calls == 1)) \
  __CPROVER_ensures(!s->vp_exited || (__CPROVER_old(DCUR(s)) == DSENT(s) && UNREG_E(g_W) && g_W->g_md_calls == 1))
#define DECOM__EXIT_CONTRACT \
  __CPROVER_requires(__CPROVER_is_fresh(s, sizeof(*s)) && s->lock.held && vp_lock_depth == 1) \
  __CPROVER_assigns(s->lock.held, vp_lock_depth) \
  __CPROVER_ensures(vp_lock_depth == 0)
#define DECOM__INIT_CONTRACT

/* ------------------------------------------------------------------ ~sequence_type */
#define SSENT(s) (&(s)->self->matchers._b0)
#define SHEAD(s) (SSENT(s)->next)
#define STDTOR__ITER_CONTRACT \
  __CPROVER_requires(__CPROVER_is_fresh(s, sizeof(*s)) && __CPROVER_is_fresh(s->self, sizeof(*s->self)) && __CPROVER_is_fresh(g_SW, sizeof(snode)) && 0 <= g_shape && g_shape < 3 && vp_exc == 0 && !s->vp_returned && !s->vp_exited) \
  __CPROVER_requires(UNREG_S(g_SW) && g_SW->g_pos < g_k && g_k <= g_n && s->touched == (g_k > 0) && 0 <= s->os.n && s->os.n <= VP_TOK_CAP && 0 <= s->os.nlit && s->os.nlit < 1000000) \
  __CPROVER_requires(g_shape == 0 ? (__CPROVER_pointer_equals(SHEAD(s), SSENT(s)) && __CPROVER_pointer_equals(SSENT(s)->prev, SSENT(s)) && g_k == g_n) \
                   : (__CPROVER_is_fresh(SHEAD(s), sizeof(snode)) && ((snode *)SHEAD(s))->g_pos == g_k && g_k < g_n && SHEAD(s)->prev == SSENT(s) && \
                      ((snode *)SHEAD(s))->seq_name != 0 && ((snode *)SHEAD(s))->exp_name != 0 && ((snode *)SHEAD(s))->exp_loc.file != 0)) \
  __CPROVER_requires(g_shape == 0 || (g_shape == 1 ? (__CPROVER_pointer_equals(SHEAD(s)->next, SSENT(s)) && __CPROVER_pointer_equals(SSENT(s)->prev, SHEAD(s)) && g_k + 1 == g_n) \
                                                   : (__CPROVER_is_fresh(SHEAD(s)->next, sizeof(snode)) && SHEAD(s)->next->prev == SHEAD(s) && ((snode *)SHEAD(s)->next)->g_pos == g_k + 1))) \
  __CPROVER_assigns(s->touched, s->os, s->vp_returned, s->vp_exited; g_shape != 0: SHEAD(s)->next, SHEAD(s)->prev, SSENT(s)->next, SHEAD(s)->next->prev) \
  __CPROVER_ensures(!s->vp_returned) \
  __CPROVER_ensures(s->vp_exited || (SHEAD(s) == __CPROVER_old(SHEAD(s)->next) && SHEAD(s)->prev == SSENT(s) && UNREG_S((snode *)__CPROVER_old(SHEAD(s))) && UNREG_S(g_SW) && s->touched)) \
  __CPROVER_ensures(!s->vp_exited || (SHEAD(s) == SSENT(s) && UNREG_S(g_SW) && s->touched == __CPROVER_old(s->touched)))
#define STDTOR__EXIT_CONTRACT \
  __CPROVER_requires(__CPROVER_is_fresh(s, sizeof(*s)) && vp_exc == 0 && vp_rep_n == 0 && s->touched == (g_k > 0) && 0 <= s->os.n && s->os.n <= VP_TOK_CAP && 0 <= s->os.nlit && s->os.nlit < 1000000 && !s->vp_returned && !vp_terminated) \
  __CPROVER_assigns(s->os, s->vp_returned, vp_rep_n, vp_exc, vp_terminated, vp_cstr_src, __CPROVER_object_whole(vp_rep)) \
  __CPROVER_ensures(vp_rep_n == (g_k > 0 ? 1 : 0) && (g_k == 0 || vp_rep[0].sev == 1) && vp_exc == 0 && !vp_terminated && !s->vp_returned)
#define STDTOR__INIT_CONTRACT

#include "unit.c"
#ifdef WANT_DECOM
#include "decom_outlined.c"
#endif
#ifdef WANT_STDTOR
#include "stdtor_outlined.c"
#endif
int nondet_int(void); unsigned long nondet_ulong(void);
static void ghost(void) { g_shape = nondet_int(); g_n = nondet_ulong(); g_k = nondet_ulong(); }
#ifdef WANT_DECOM
void d_iter(void) { struct decom_st *s; ghost(); vp_lock_depth = 1; decom__iter(s); __CPROVER_assert(g_shape != 0, "REACH decommission end"); __CPROVER_assert(g_shape != 1, "REACH decommission last node"); __CPROVER_assert(g_shape != 2, "REACH decommission inner node"); }
void d_exit(void) { struct decom_st *s; vp_lock_depth = 1; decom__exit(s); __CPROVER_assert(0, "REACH decommission exit"); }
#endif
#ifdef WANT_STDTOR
void s_iter(void) { struct stdtor_st *s; ghost(); stdtor__iter(s); __CPROVER_assert(g_shape != 0, "REACH ~sequence_type empty"); __CPROVER_assert(g_shape != 1, "REACH ~sequence_type last"); __CPROVER_assert(g_shape != 2, "REACH ~sequence_type inner"); }
void s_exit(void) { struct stdtor_st *s; ghost(); stdtor__exit(s); __CPROVER_assert(g_k == 0, "REACH ~sequence_type exit touched"); __CPROVER_assert(g_k != 0, "REACH ~sequence_type exit untouched"); }
#endif
int main(void) { VP_ENTRY(); return 0; }
