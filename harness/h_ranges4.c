/* h_ranges4.c - the range matchers over a std::vector<int> of symbolic length 0..4 (C11, BOUNDED): "any length including
 * empty, with duplicates".  The vector is the trusted fixed-capacity model (begin/end = element pointers); the checker templates
 * are the same as for C arrays, instantiated for the container. */
#define VP_TOK_CAP 1
#include "vp_models.h"
#include "unit.h"
#include "vp_models_impl.h"
int nondet_int(void); _Bool nondet_bool(void); unsigned long nondet_ulong(void);
struct vp_vec_int vec; int in_a[4]; unsigned long in_n; int in_v[3]; _Bool in_ans[4]; int calls[4];
_Bool f__ZNK14vp_trompeloeil6vp_absILi1EE7matchesERKi(struct S_vp_abs_1 *self, int *v) { long j = v - &vec.a[0]; __CPROVER_assert(0 <= j && (unsigned long)j < in_n, "[C11] SAFETY element matcher is only ever given a member of the range"); calls[j]++; return in_ans[j]; }
#include "unit.c"
static void init(void) { in_n = nondet_ulong(); __CPROVER_assume(in_n <= 4); vec.n = in_n; for (int j = 0; j < 4; j++) { in_a[j] = nondet_int(); vec.a[j] = in_a[j]; in_ans[j] = nondet_bool(); calls[j] = 0; } for (int i = 0; i < 3; i++) in_v[i] = nondet_int(); }
#define U(PM) PM##_T1 u; u.p = &vec;
static int cnt(int x) { int c = 0; for (unsigned long j = 0; j < 4; j++) if (j < in_n && in_a[j] == x) c++; return c; }
void rv_is_starts_ends(void) { init(); U(RV_IS) RV_IS_T0 mi; RV_STARTS_T0 ms; RV_ENDS_T0 me; int *a = in_a, *v = in_v; unsigned long n = in_n;
  mi.value._0 = v[0]; mi.value._1 = v[1]; mi.value._2 = v[2]; ms.value._0 = v[0]; ms.value._1 = v[1]; me.value._0 = v[0]; me.value._1 = v[1];
  __CPROVER_assert(RV_IS(&mi, &u) == (n == 3 && a[0] == v[0] && a[1] == v[1] && a[2] == v[2]), "[C11] POST vector.range_is_accepts_exactly_equal_length_element_wise_matches");
  __CPROVER_assert(RV_STARTS(&ms, &u) == (n >= 2 && a[0] == v[0] && a[1] == v[1]), "[C11] POST vector.range_starts_with_accepts_exactly_prefix_matches");
  __CPROVER_assert(RV_ENDS(&me, &u) == (n >= 2 && a[n >= 2 ? n - 2 : 0] == v[0] && a[n >= 2 ? n - 1 : 0] == v[1]), "[C11] POST vector.range_ends_with_accepts_exactly_suffix_matches");
  __CPROVER_assert(n != 0, "REACH vector.empty"); __CPROVER_assert(n != 4, "REACH vector.length4"); __CPROVER_assert(0, "REACH! rv_is_starts_ends"); }
void rv_includes_permutation(void) { init(); U(RV_INC) RV_INC_T0 mi; RV_PERM_T0 mp; int *v = in_v; unsigned long n = in_n;
  mi.value._0 = v[0]; mi.value._1 = v[1]; mp.value._0 = v[0]; mp.value._1 = v[1]; mp.value._2 = v[2];
  __CPROVER_assert(RV_INC(&mi, &u) == (v[0] == v[1] ? cnt(v[0]) >= 2 : (cnt(v[0]) >= 1 && cnt(v[1]) >= 1)), "[C11] POST vector.range_includes_accepts_iff_the_listed_values_match_distinct_members");
  { _Bool perm = (n == 3); for (int i = 0; i < 3; i++) { int cv = 0; for (int q = 0; q < 3; q++) if (v[q] == v[i]) cv++; if (n == 3 && cnt(v[i]) != cv) perm = 0; }
    __CPROVER_assert(RV_PERM(&mp, &u) == perm, "[C11] POST vector.range_is_permutation_is_multiset_equality_using_up_the_whole_range"); }
  __CPROVER_assert(n != 0, "REACH vector.empty"); __CPROVER_assert(0, "REACH! rv_includes_permutation"); }
void rv_all_any_none(void) { init(); U(RV_ALL) RV_ALL_T0 ma; RV_ANY_T0 my; RV_NONE_T0 mn; unsigned long n = in_n;
  _Bool all = 1, any = 0; for (unsigned long j = 0; j < 4; j++) if (j < n) { if (!in_ans[j]) all = 0; else any = 1; }
  __CPROVER_assert(RV_ALL(&ma, &u) == all, "[C11] POST vector.range_all_of_accepts_iff_every_member_is_accepted_and_the_empty_range");
  __CPROVER_assert(RV_ANY(&my, &u) == any, "[C11] POST vector.range_any_of_accepts_iff_some_member_is_accepted_and_rejects_the_empty_range");
  __CPROVER_assert(RV_NONE(&mn, &u) == !any, "[C11] POST vector.range_none_of_accepts_iff_no_member_is_accepted_and_the_empty_range");
  __CPROVER_assert(n != 0, "REACH vector.empty"); __CPROVER_assert(0, "REACH! rv_all_any_none"); }
int main(void) { VP_ENTRY(); return 0; }
