/* h_build.c - creating and releasing an expectation (C03 RT_TIMES sentence, C05/C06 registration, C04, C07, C14).
 * The driver functions vp_build* contain nothing but the REQUIRE_CALL macro expression; what is lowered and run is the
 * code the macros expand to: call_matcher constructor, IN_SEQUENCE (sequence_handler<1>, sequence_matcher constructor =
 * registration), RT_TIMES (runtime_times::action incl. the low > high exception), RETURN (set_return), operator+ /
 * make_expectation / hook_last, and at the end the release through the virtual destructor.  The mock object and the
 * sequence object are built by their real constructors.  Loop-free apart from the concrete K<=1 handle loops. */
#define VP_TOK_CAP 1
#include "vp_models.h"
#include "unit.h"
#include "vp_models_impl.h"
#include "unit.c"
unsigned long nondet_ulong(void);
typedef struct S_list_elem_call_matcher_base_int_int cle; typedef struct S_list_elem_sequence_matcher sle;
static struct CM *cm_of(struct S_expectation *e) { return (struct CM *)((char *)e - __builtin_offsetof(struct CM, _b1)); }
#define ACT(m) (&(m)->trompeloeil_l_expectations_12.active._b0._b0)
#define SAT(m) (&(m)->trompeloeil_l_expectations_12.saturated._b0._b0)
#define RING(s) (&(s)->obj->matchers._b0)
#define EMPTY(x) ((x)->next == (x) && (x)->prev == (x))
#define ONLY(x, e) ((x)->next == (e) && (x)->prev == (e) && (e)->next == (x) && (e)->prev == (x))

void b_rt_times(void)
{
  struct S_vp_M m; MK_M(&m); struct S_sequence s; MK_SEQ(&s);
  unsigned long lo = nondet_ulong(), hi = nondet_ulong();
  __CPROVER_assert(EMPTY(ACT(&m)) && EMPTY(SAT(&m)) && EMPTY(RING(&s)), "[C14] POST new mock object and sequence are empty");
  struct S_expectation *e = BUILD(&m, &s, lo, hi);
  if (hi < lo) {
    __CPROVER_assert(vp_exc == VP_EXC_LOGIC_ERROR, "[C03] POST RT_TIMES with low above high throws std::logic_error");
    __CPROVER_assert(EMPTY(ACT(&m)) && EMPTY(SAT(&m)), "[C03] POST RT_TIMES with low above high leaves no expectation behind");
    __CPROVER_assert(EMPTY(RING(&s)), "[C03,C05] POST RT_TIMES with low above high leaves no sequence registration behind");
    __CPROVER_assert(vp_rep_n == 0 && vp_ok_n == 0 && !vp_terminated, "[C03,C15] POST RT_TIMES with low above high reports nothing");
    vp_exc = 0;
  } else {
    __CPROVER_assert(vp_exc == 0 && vp_rep_n == 0, "[C03] POST a legal RT_TIMES builds the expectation silently");
    struct CM *c = cm_of(e);
    __CPROVER_assert(ONLY(ACT(&m), &c->_b0._b0) && EMPTY(SAT(&m)), "[C01,C03] POST the new expectation is the only active one");
    __CPROVER_assert(c->sequences->min_calls == lo && c->sequences->max_calls == hi && c->sequences->call_count == 0, "[C03] POST bounds are those given to RT_TIMES and nothing is counted yet");
    __CPROVER_assert(c->sequences->vp_tag == VP_TAG_S_sequence_handler_1, "[C05] POST one IN_SEQUENCE sequence gives a one-handle sequence handler");
    struct SM *h = &((struct SH1 *)c->sequences)->matchers.matchers.e[0];
    __CPROVER_assert(ONLY(RING(&s), &h->_b0), "[C05,C06] POST the expectation is registered exactly once in its sequence");
    __CPROVER_assert(h->sequence_handler == c->sequences && h->seq == s.obj && h->exp_name == c->_b0.name && h->exp_loc.line == c->_b0.loc.line && h->exp_loc.file == c->_b0.loc.file, "[C05,C15] POST the handle names its expectation, location and sequence");
    __CPROVER_assert(!c->reported && c->return_handler_obj != 0, "[C08] POST the RETURN handler is installed");
    /* release it: C04 */
    vp_delete_struct_S_expectation(e);
    __CPROVER_assert(vp_exc == 0 && !vp_terminated, "[C04,C15] POST releasing an expectation never throws");
    __CPROVER_assert(vp_rep_n == (lo > 0 ? 1 : 0), "[C04] POST one report iff the lower bound was missed");
    if (lo > 0) __CPROVER_assert(vp_rep[0].sev != 0, "[C04,C15] POST the unfulfilled report is non-fatal");
    __CPROVER_assert(EMPTY(ACT(&m)) && EMPTY(SAT(&m)) && EMPTY(RING(&s)), "[C04,C06,C14] POST a released expectation leaves its lists and sequences");
    __CPROVER_assert(lo == 0, "REACH rt_times unfulfilled"); __CPROVER_assert(lo != 0, "REACH rt_times satisfied");
  }
  int before = vp_rep_n;
  SEQ_DTOR(&s); M_DTOR(&m);
  __CPROVER_assert(vp_rep_n == before && vp_exc == 0 && !vp_terminated, "[C04,C06] POST destroying the empty sequence and mock objects reports nothing");
  __CPROVER_assert(hi >= lo, "REACH rt_times low above high");
  __CPROVER_assert(0, "REACH! b_rt_times");
}

void b_two_in_sequence(void)
{
  struct S_vp_M m; MK_M(&m); struct S_sequence s; MK_SEQ(&s);
  struct S_expectation *a = BUILD(&m, &s, 1, 1);
  struct S_expectation *b = BUILD(&m, &s, 0, 1);
  __CPROVER_assert(vp_exc == 0 && vp_rep_n == 0, "[C05] POST building is silent");
  struct CM *ca = cm_of(a), *cb = cm_of(b);
  struct SM *ha = &((struct SH1 *)ca->sequences)->matchers.matchers.e[0], *hb = &((struct SH1 *)cb->sequences)->matchers.matchers.e[0];
  sle *r = RING(&s);
  __CPROVER_assert(r->next == &ha->_b0 && ha->_b0.next == &hb->_b0 && hb->_b0.next == r && r->prev == &hb->_b0 && hb->_b0.prev == &ha->_b0 && ha->_b0.prev == r, "[C05,C06] POST registration order in the sequence is creation order");
  cle *act = ACT(&m);
  __CPROVER_assert(act->next == &cb->_b0._b0 && cb->_b0._b0.next == &ca->_b0._b0 && ca->_b0._b0.next == act, "[C02] POST the newest expectation is first in the active list");
  /* the older one is released first: the younger stays registered alone */
  vp_delete_struct_S_expectation(a);
  __CPROVER_assert(vp_rep_n == 1 && vp_rep[0].sev != 0, "[C04] POST the unsatisfied older expectation is reported once, non-fatally");
  __CPROVER_assert(ONLY(r, &hb->_b0) && ONLY(act, &cb->_b0._b0), "[C05,C06,C14] POST the remaining expectation is alone in list and sequence");
  vp_delete_struct_S_expectation(b);
  __CPROVER_assert(vp_rep_n == 1 && EMPTY(r) && EMPTY(act) && vp_exc == 0 && !vp_terminated, "[C04,C14] POST the satisfied one goes silently, everything is empty");
  SEQ_DTOR(&s); M_DTOR(&m);
  __CPROVER_assert(vp_rep_n == 1, "[C06] POST an empty sequence object is destroyed silently");
  __CPROVER_assert(0, "REACH! b_two_in_sequence");
}

void b_plain_and_forbid(void)
{
  struct S_vp_M m; MK_M(&m);
  struct S_expectation *p = BUILD_PLAIN(&m);
  struct CM *cp = cm_of(p);
  __CPROVER_assert(vp_exc == 0 && cp->sequences->min_calls == 1 && cp->sequences->max_calls == 1 && cp->sequences->call_count == 0, "[C03] POST the default bounds are exactly once");
  __CPROVER_assert(cp->sequences->vp_tag == VP_TAG_S_sequence_handler_0, "[C05] POST without IN_SEQUENCE there is no sequence handle");
  struct S_expectation *f = BUILD_FORBID(&m);
  struct CM *cf = cm_of(f);
  __CPROVER_assert(vp_exc == 0 && cf->sequences->min_calls == 0 && cf->sequences->max_calls == 0, "[C03,C07] POST FORBID_CALL is TIMES(0)");
  __CPROVER_assert(cf->return_handler_obj == 0, "[C07] POST a forbidding expectation needs no RETURN");
  cle *act = ACT(&m);
  __CPROVER_assert(act->next == &cf->_b0._b0 && cf->_b0._b0.next == &cp->_b0._b0 && cp->_b0._b0.next == act, "[C02] POST the newest expectation is first in the active list");
  /* the mock object dies first: C04 - the pending one is reported once, the forbidding one never */
  M_DTOR(&m);
  __CPROVER_assert(vp_rep_n == 1 && vp_rep[0].sev != 0 && vp_rep[0].line == cp->_b0.loc.line, "[C04,C07,C15] POST mock destroyed first: one non-fatal report for the pending expectation, none for the forbidding one");
  vp_delete_struct_S_expectation(p); vp_delete_struct_S_expectation(f);
  __CPROVER_assert(vp_rep_n == 1 && vp_exc == 0 && !vp_terminated, "[C04,C14] POST releasing them afterwards reports nothing more");
  __CPROVER_assert(0, "REACH! b_plain_and_forbid");
}
/* the multiplicity helpers: AT_MOST(n) = [0, n], AT_LEAST(n) = [n, unbounded], ALLOW_CALL = [0, unbounded] */
void b_multiplicities(void)
{
  struct S_vp_M m; MK_M(&m);
  struct S_expectation *a = BUILD_AT_MOST(&m), *b = BUILD_AT_LEAST(&m), *c = BUILD_ALLOW(&m);
  struct CM *ca = cm_of(a), *cb = cm_of(b), *cc = cm_of(c);
  __CPROVER_assert(vp_exc == 0 && vp_rep_n == 0, "[C03] POST multiplicities.building_is_silent");
  __CPROVER_assert(ca->sequences->min_calls == 0 && ca->sequences->max_calls == 3, "[C03] POST multiplicities.AT_MOST_n_is_zero_to_n");
  __CPROVER_assert(cb->sequences->min_calls == 2 && cb->sequences->max_calls == ~0UL, "[C03] POST multiplicities.AT_LEAST_n_is_n_to_unbounded");
  __CPROVER_assert(cc->sequences->min_calls == 0 && cc->sequences->max_calls == ~0UL, "[C03] POST multiplicities.ALLOW_CALL_is_zero_to_unbounded");
  vp_delete_struct_S_expectation(a); vp_delete_struct_S_expectation(c);
  __CPROVER_assert(vp_rep_n == 0, "[C04] POST multiplicities.AT_MOST_and_ALLOW_never_report_at_end_of_life");
  vp_delete_struct_S_expectation(b);
  __CPROVER_assert(vp_rep_n == 1 && vp_rep[0].sev == 1, "[C04] POST multiplicities.AT_LEAST_2_never_called_is_one_non_fatal_report");
  M_DTOR(&m);
  __CPROVER_assert(vp_rep_n == 1 && vp_exc == 0 && !vp_terminated, "[C04,C14] POST multiplicities.the_empty_mock_object_is_destroyed_silently");
  __CPROVER_assert(0, "REACH! b_multiplicities");
}
#ifdef WANT_FULL
/* a complete expectation with the user's real clauses (closures lowered from the driver):
 *   .WITH(_1 > 0).WITH(_1 < 9).LR_SIDE_EFFECT(g = g * 2).LR_SIDE_EFFECT(g = g + 1).TIMES(2, 5).IN_SEQUENCE(s1, s2).LR_RETURN(_1 + g)
 * built, called once through the real mock_func, released */
int nondet_int(void);
void b_full_expectation(void)
{
  struct S_vp_M m; MK_M(&m); struct S_sequence s1, s2; MK_SEQ(&s1); MK_SEQ(&s2);
  int g0 = nondet_int(); __CPROVER_assume(-1000 < g0 && g0 < 1000); int g = g0;
  struct S_expectation *e = BUILD_FULL(&m, &s1, &s2, &g);
  struct CM *c = cm_of(e);
  __CPROVER_assert(vp_exc == 0 && vp_rep_n == 0 && g == g0, "[C08] POST building an expectation evaluates none of its clauses");
  __CPROVER_assert(c->sequences->min_calls == 2 && c->sequences->max_calls == 5 && c->sequences->call_count == 0, "[C03] POST bounds are those given to TIMES");
  __CPROVER_assert(c->sequences->vp_tag == VP_TAG_S_sequence_handler_2, "[C05] POST IN_SEQUENCE(s1, s2) gives a two-handle sequence handler");
  struct SM *h0 = &((struct SH2 *)c->sequences)->matchers.matchers.e[0], *h1 = &((struct SH2 *)c->sequences)->matchers.matchers.e[1];
  __CPROVER_assert((ONLY(RING(&s1), &h0->_b0) && ONLY(RING(&s2), &h1->_b0)) || (ONLY(RING(&s1), &h1->_b0) && ONLY(RING(&s2), &h0->_b0)), "[C05,C06] POST registered exactly once in each of its two sequences");
  struct S_list_elem_condition_base_int_int *cs = &c->conditions._b0;
  __CPROVER_assert(cs->next != cs && cs->next->next != cs && cs->next->next->next == cs, "[C08] POST two WITH clauses are stored");
  __CPROVER_assert(((struct S_condition_base_int_int *)cs->next)->id[3] == '>' && ((struct S_condition_base_int_int *)cs->next->next)->id[3] == '<', "[C08,C15] POST WITH clauses are kept in declaration order with their text");
  /* one call through the real mock_func */
  int x = nondet_int(); g_tracer_obj_ptr = 0;
  int ret = MOCK_FUNC(&m.trompeloeil_l_expectations_12, "f", "int(int)", &x);
  if (x > 0 && x < 9) {
    __CPROVER_assert(vp_exc == 0 && vp_rep_n == 0, "[C01] POST a call that passes both WITH clauses is accepted");
    __CPROVER_assert(g == g0 * 2 + 1, "[C08] POST side effects run once each, in declaration order");
    __CPROVER_assert(ret == x + g0 * 2 + 1, "[C08] POST the RETURN expression is evaluated after the side effects and its value reaches the caller");
    __CPROVER_assert(c->sequences->call_count == 1 && vp_ok_n == 1, "[C03,C16] POST counted once, one OK report");
  } else {
    __CPROVER_assert(vp_exc == VP_EXC_VIOLATION && vp_rep_n == 1 && vp_rep[0].sev == 0, "[C01,C15] POST a call that fails a WITH clause is rejected with one fatal report");
    __CPROVER_assert(g == g0 && c->sequences->call_count == 0 && vp_ok_n == 0, "[C01,C08] POST a rejected call has no effect");
    vp_exc = 0;
  }
  int before = vp_rep_n;
  vp_delete_struct_S_expectation(e);
  /* a no-match report names every live expectation: it is then not reported again (C04) */
  __CPROVER_assert(vp_rep_n == before + ((x > 0 && x < 9) ? 1 : 0), "[C04] POST below its lower bound at release: one report unless already named in a violation report");
  __CPROVER_assert(EMPTY(ACT(&m)) && EMPTY(RING(&s1)) && EMPTY(RING(&s2)) && vp_exc == 0 && !vp_terminated, "[C04,C06,C14] POST released: lists and both sequences are empty");
  SEQ_DTOR(&s1); SEQ_DTOR(&s2); M_DTOR(&m);
  __CPROVER_assert(!(x > 0 && x < 9), "REACH full accepted"); __CPROVER_assert(x > 0 && x < 9, "REACH full rejected");
  __CPROVER_assert(0, "REACH! b_full_expectation");
}
#endif
int main(void) { VP_ENTRY(); return 0; }
