/* h_list_prims.c - DFCC contracts on the intrusive ring primitives (C14 core), and the mock move constructor */
#define VP_TOK_CAP 1
#include "vp_models.h"
int g_shape;
#include "unit.h"
#include "vp_models_impl.h"
#include "unit.c"
int nondet_int(void); _Bool nondet_bool(void);
#define SHAPES3 __CPROVER_assert(g_shape != 0, "REACH shape 0"); __CPROVER_assert(g_shape != 1, "REACH shape 1"); __CPROVER_assert(g_shape != 2, "REACH shape 2");
void p_unlink(void)     { struct LE *e; g_shape = nondet_int(); UNLINK(e); SHAPES3 }
void p_is_linked(void)  { struct LE *e; _Bool r = IS_LINKED(e); __CPROVER_assert(0, "REACH is_linked"); }
void p_push_front(void) { struct LIST *l; struct CMB *t; g_shape = nondet_int(); PUSH_FRONT(l, t); SHAPES3 }
void p_push_back(void)  { struct LIST *l; struct CMB *t; g_shape = nondet_int(); PUSH_BACK(l, t); SHAPES3 }
void p_move_assign(void){ struct LE *a, *r; g_shape = nondet_int(); LE_MOVE_ASSIGN(a, r); SHAPES3 }

/* the three alias shapes of the contracts cover every ring: concrete rings of 1..4 nodes, every node as `self` */
static _Bool shape_of(struct LE *e) { return 0; }
void p_shapes_cover(void)
{
  struct LE n[4]; int len = nondet_int(); __CPROVER_assume(1 <= len && len <= 4);
  for (int i = 0; i < 4; i++) if (i < len) { n[i].next = &n[(i + 1) % len]; n[i].prev = &n[(i + len - 1) % len]; }
  int k = nondet_int(); __CPROVER_assume(0 <= k && k < len);
  struct LE *self = &n[k];
  _Bool s0 = self->next == self && self->prev == self;
  _Bool s1 = self->next != self && self->prev == self->next && self->next->prev == self && self->next->next == self;
  _Bool s2 = self->next != self && self->prev != self && self->next != self->prev && self->next->prev == self && self->prev->next == self;
  __CPROVER_assert(s0 || s1 || s2, "[C14] COVER every_ring_node_matches_one_contract_shape");
  __CPROVER_assert(s0 + s1 + s2 <= 1, "[C14] COVER shapes_are_disjoint");
  __CPROVER_assert(!(len == 4), "REACH ring of four");
  __CPROVER_assert(0, "REACH! shapes_cover.end");
}

/* moving a (movable) mock: both lists go to the new object, the old one is left empty */
#ifndef NA
#define NA 2
#endif
#ifndef NS
#define NS 1
#endif
void p_exps_move(void)
{
  struct MEXPS *src = VP_NEW(struct MEXPS), *dst = VP_NEW(struct MEXPS);
  struct CMB *a[2], *s[2];
  struct LE *ta = &src->active._b0._b0, *ts = &src->saturated._b0._b0;
  ta->next = ta->prev = ta; ts->next = ts->prev = ts;
  for (int i = 0; i < 2; i++) { a[i] = VP_NEW(struct CMB); s[i] = VP_NEW(struct CMB);
    if (i < NA) { struct LE *e = &a[i]->_b0; e->prev = ta->prev; e->next = ta; ta->prev->next = e; ta->prev = e; }
    if (i < NS) { struct LE *e = &s[i]->_b0; e->prev = ts->prev; e->next = ts; ts->prev->next = e; ts->prev = e; } }
  EXPS_MOVE(dst, src);
  struct LE *da = &dst->active._b0._b0, *ds = &dst->saturated._b0._b0;
  /* same elements in the same order, now in the new object's rings */
  struct LE *p = da->next;
  for (int i = 0; i < 2; i++) if (i < NA) { __CPROVER_assert(p == &a[i]->_b0 && p->prev == (i == 0 ? da : &a[i-1]->_b0), "[C14] POST mock_move.active_expectations_belong_to_the_new_object_in_order"); p = p->next; }
  __CPROVER_assert(p == da, "[C14] POST mock_move.active_ring_closed");
  p = ds->next;
  for (int i = 0; i < 2; i++) if (i < NS) { __CPROVER_assert(p == &s[i]->_b0 && p->prev == (i == 0 ? ds : &s[i-1]->_b0), "[C14] POST mock_move.saturated_expectations_belong_to_the_new_object_in_order"); p = p->next; }
  __CPROVER_assert(p == ds, "[C14] POST mock_move.saturated_ring_closed");
  __CPROVER_assert(ta->next == ta && ta->prev == ta && ts->next == ts && ts->prev == ts, "[C14] POST mock_move.moved_from_object_is_empty");
  __CPROVER_assert(0, "REACH! exps_move.end");
}
int main(void) { VP_ENTRY(); return 0; }
