/* h_c09.c - C09 (PARTIAL): the positional parameters _1.._3 alias the caller's arguments, plain clauses use copies of locals
 * taken when the expectation was created, LR_ clauses see the locals as they are at the call.  The driver functions
 * vp_c09_* are plain API use (MAKE_MOCKn, REQUIRE_CALL / ALLOW_CALL with WITH / SIDE_EFFECT / RETURN and their LR_ forms);
 * everything they expand to - the mock member function, mock_func, the clause closures with their [=] / [&] captures,
 * mkarg<N>, the reference_wrapper tuple - is lowered from the AST and run here on symbolic values.  Capture-by-copy vs
 * by-reference is what clang's front end put into the closure types from the macro text (trusted front end). */
#ifndef VP_TOK_CAP
#define VP_TOK_CAP 1
#endif
#include "vp_models.h"
#include "unit.h"
#include "vp_models_impl.h"
#include "unit.c"
int nondet_int(void);
int in_x0, in_y0, in_z0, in_k;
#ifndef W_X
#define W_X 7
#endif
#define SMALL(v) int v = nondet_int(); __CPROVER_assume(-100000 < v && v < 100000); in_##v = v
void c_alias(void)
{
  SMALL(x0); SMALL(y0); SMALL(z0); SMALL(k); struct OBS o; g_tracer_obj_ptr = 0;
  C09_ALIAS(x0, y0, z0, k, &o);
  __CPROVER_assert(vp_exc == 0 && vp_rep_n == 0 && !vp_terminated, "[C09] POST _3 bound to a const reference parameter is the caller's object itself (LR_WITH(&_3 == &z) holds), nothing is reported");
  __CPROVER_assert(o.x == x0 + k, "[C09] POST a write through _1 (int&) is seen by the caller, and a plain SIDE_EFFECT uses the copy of the local taken at creation");
  __CPROVER_assert(o.y == k + 100, "[C09] POST a write through the pointer parameter _2 is seen by the caller, and an LR_SIDE_EFFECT sees the local as it is at the call");
  __CPROVER_assert(o.ret == z0 + k, "[C09] POST a plain RETURN uses the copy of the local taken at creation and the value of _3");
  __CPROVER_assert(o.extra == k + 100, "[C09] POST the local itself is untouched by the clauses");
  __CPROVER_assert(0, "REACH! c_alias");
}
void c_lr(void)
{
  SMALL(x0); SMALL(k); struct OBS o; g_tracer_obj_ptr = 0;
  C09_LR(x0, k, &o);
  __CPROVER_assert(vp_exc == 0 && vp_rep_n == 0 && !vp_terminated, "[C09] POST LR_WITH sees the local as it is at the call, and _1 is the caller's object (LR_WITH(&_1 == p) with p set after the expectation was created)");
  __CPROVER_assert(o.ret == 1 && o.x == x0 + 1, "[C09] POST a reference returned from a parameter (LR_RETURN(_1) of int&(int&)) aliases the caller's object");
  __CPROVER_assert(o.y == x0, "[C09] POST a plain RETURN of a local returns the value it had when the expectation was created");
  __CPROVER_assert(0, "REACH! c_lr");
}
void c_positions(void)
{
  SMALL(x0); SMALL(y0); struct OBS o; g_tracer_obj_ptr = 0;
  C09_POS(x0, y0, &o);
  __CPROVER_assert(vp_exc == 0 && vp_rep_n == 0 && !vp_terminated && o.extra == x0, "[C09] POST _1 of a const mock function of arity 2 is the first argument");
  __CPROVER_assert(o.y == x0 + 7, "[C09] POST _2 is the second argument, by reference: the write is seen by the caller");
  __CPROVER_assert(o.x == x0, "[C09] POST _1 of a by-value parameter is the mock function's own copy: writing it does not touch the caller's variable");
  __CPROVER_assert(0, "REACH! c_positions");
}
void c_arity15(void)
{
  SMALL(x0); struct OBS15 o; g_tracer_obj_ptr = 0;
  C09_A15(x0, &o);
  __CPROVER_assert(vp_exc == 0 && vp_rep_n == 0 && !vp_terminated, "[C09] POST a call of the arity-15 mock function is accepted silently");
  for (int i = 0; i < 15; i++) __CPROVER_assert(o.v[i] == x0 + i + 1 + 100, "[C09] POST _1.._15 denote the fifteen arguments in positional order and by reference in WITH (address identity), SIDE_EFFECT (+k) and RETURN (+100)");
  __CPROVER_assert(o.ret == x0 + 15 + 100, "[C09] POST the RETURN expression is evaluated after the side effect and sees the written argument");
  __CPROVER_assert(0, "REACH! c_arity15");
}
void c_arity15_throw(void)
{
  SMALL(x0); struct OBS15 o; g_tracer_obj_ptr = 0;
  C09_A15T(x0, &o);
  __CPROVER_assert(vp_rep_n == 0 && !vp_terminated && o.ret == 1, "[C09] POST the call ends with the exception of the THROW clause, nothing is reported");
  for (int i = 0; i < 15; i++) __CPROVER_assert(o.v[i] == x0 + i + 1, "[C09] POST _1.._15 in a THROW clause denote the fifteen arguments in positional order, by reference");
  __CPROVER_assert(0, "REACH! c_arity15_throw");
}
/* rvalue reference parameter on an overloaded, interface-implementing mock function, called through the interface */
void c_rvalue(void)
{
  SMALL(x0); SMALL(k); struct OBS o; g_tracer_obj_ptr = 0;
  C09_RV(x0, k, &o);
  __CPROVER_assert(vp_exc == 0 && vp_rep_n == 0 && !vp_terminated, "[C09] POST calls through the interface reach the overload of the mock function chosen by the argument type, nothing is reported");
  __CPROVER_assert(o.x == 1, "[C09] POST an rvalue argument reaches the clauses without being copied or moved: _1 is the caller's object itself");
  __CPROVER_assert(o.y == x0 + k, "[C09] POST a write through _1 of an rvalue reference parameter is seen in the caller's object");
  __CPROVER_assert(o.ret == x0 + k, "[C09] POST RETURN(_1.v) sees the object as the side effects left it");
  __CPROVER_assert(o.extra == x0 - 1, "[C09] POST the int overload is handled by its own expectation with _1 the int argument");
  __CPROVER_assert(0, "REACH! c_rvalue");
}
/* move-only argument passed by value */
void c_moveonly(void)
{
  SMALL(x0); struct OBS o; g_tracer_obj_ptr = 0;
  C09_MO(x0, &o);
  __CPROVER_assert(vp_exc == 0 && vp_rep_n == 0 && !vp_terminated, "[C09] POST a call with a move-only argument is accepted (LR_WITH(_1 != nullptr) sees the pointer that was passed)");
  __CPROVER_assert(o.x == 1, "[C09] POST a move-only argument reaches the clause as itself: moving from _1 hands over the caller's allocation");
  __CPROVER_assert(o.y == x0 + 1, "[C09] POST the side effects see it in declaration order: the increment through _1 happened before it was moved from");
  __CPROVER_assert(o.ret == 1, "[C09] POST RETURN is evaluated after the side effects: _1 is null once it was moved from");
  __CPROVER_assert(o.extra == 1, "[C09] POST the caller's own pointer was moved into the parameter");
  __CPROVER_assert(0, "REACH! c_moveonly");
}
/* C14: "after a mock object has been moved, its expectations - active and saturated - belong to the new object" */
void c_move(void)
{
  SMALL(x0); struct OBS o; g_tracer_obj_ptr = 0;
  C14_MOVE(x0, &o);
  __CPROVER_assert(o.x == x0 + 1 && o.ret == x0 + 1, "[C14] POST moved.active_expectation_handles_calls_on_the_new_object_as_it_did_on_the_old_one");
  __CPROVER_assert(o.y == x0 - 1, "[C14,C03] POST moved.once_it_is_saturated_the_older_expectation_moved_with_it_takes_over");
  __CPROVER_assert(o.extra == 1 && vp_rep_n == 1 && vp_rep[0].sev == 0, "[C14,C03,C15] POST moved.a_call_beyond_the_bound_of_the_moved_saturated_expectation_is_one_fatal_report");
  { /* the report names the saturated expectation: its text "a.g()" is streamed as a data token */
    const struct vp_string *m = &vp_rep[0].msg; _Bool named = 0;
    for (int k = 0; k < VP_TOK_CAP; k++) if (k < m->n && m->t[k].kind == VP_T_CSTR && m->t[k].p != 0 && ((const char *)m->t[k].p)[0] == 'a' && ((const char *)m->t[k].p)[1] == '.' && ((const char *)m->t[k].p)[2] == 'g') named = 1;
    __CPROVER_assert(!m->overflow && named, "[C14,C03,C15] POST moved.the_report_names_the_saturated_expectation_which_moved_with_the_mock"); }
  __CPROVER_assert(vp_exc == 0 && !vp_terminated, "[C14] POST moved.everything_is_released_quietly_at_scope_exit");
  __CPROVER_assert(0, "REACH! c_move");
}
/* C01 / C15: a call whose argument does not fit the expected value is one fatal no-match report that prints every actual
 * argument and lists the live expectation with the parameter that rejected the call */
void c_param_mismatch(void)
{
  /* the first argument is concrete per variant (W_X = 5: fits, 7: does not), so that the match decision folds; the second is free */
  int x0 = W_X; SMALL(y0); struct OBS o; g_tracer_obj_ptr = 0;
  C15_PM(x0, y0, &o);
  __CPROVER_assert(o.ret == (x0 == 5), "[C01,C10] POST param.accepted_iff_the_plain_value_operand_equals_the_argument");
  __CPROVER_assert(o.extra == 1 && vp_exc == 0 && !vp_terminated, "[C01] POST param.the_fitting_call_is_handled");
  __CPROVER_assert(vp_rep_n == (x0 == 5 ? 0 : 1), "[C01,C15] POST param.a_call_that_fits_no_expectation_is_exactly_one_report");
  if (x0 != 5) {
    const struct vp_string *m = &vp_rep[0].msg; int nx = 0, ny = 0, n5 = 0; _Bool named = 0;
    __CPROVER_assert(vp_rep[0].sev == 0 && !m->overflow, "[C15] POST param.the_report_is_fatal");
    for (int k = 0; k < VP_TOK_CAP; k++) if (k < m->n) {
      if (m->t[k].kind == VP_T_INT && (int)m->t[k].v == x0) nx++;
      if (m->t[k].kind == VP_T_INT && (int)m->t[k].v == y0) ny++;
      if (m->t[k].kind == VP_T_INT && (int)m->t[k].v == 5) n5++;
      if (m->t[k].kind == VP_T_CSTR && m->t[k].p != 0 && ((const char *)m->t[k].p)[0] == 'm' && ((const char *)m->t[k].p)[1] == '.' && ((const char *)m->t[k].p)[2] == 'p') named = 1;
    }
    __CPROVER_assert(nx >= 1 && ny >= 1, "[C15] POST param.the_report_prints_every_actual_argument");
    __CPROVER_assert(named, "[C15] POST param.the_report_lists_the_live_expectation_with_its_text");
    __CPROVER_assert(n5 >= 1, "[C15] POST param.the_listed_expectation_shows_the_expected_value_of_the_parameter_that_rejected_the_call");
  }
  __CPROVER_assert(0, "REACH! c_param_mismatch");
}
/* C04: "the report gives its source location, its text, the expected parameter values and the required and actual counts" */
void c_unfulfilled(void)
{
  SMALL(x0); int n = W_X == 5 ? 0 : 1; struct OBS o; g_tracer_obj_ptr = 0;
  C04_UNF(x0, n, &o);
  __CPROVER_assert(o.ret == 1 && vp_exc == 0 && !vp_terminated, "[C04,C15] POST unfulfilled.the_scope_is_left_normally");
  __CPROVER_assert(vp_rep_n == 1 && vp_rep[0].sev == 1, "[C04,C15] POST unfulfilled.one_non_fatal_report_at_the_end_of_the_scope");
  const struct vp_string *m = &vp_rep[0].msg; int nv = 0, n2 = 0, ncnt = 0; _Bool named = 0;
  __CPROVER_assert(!m->overflow, "[C04] MODEL token capacity sufficient");
  for (int k = 0; k < VP_TOK_CAP; k++) if (k < m->n) {
    if (m->t[k].kind == VP_T_INT && (int)m->t[k].v == x0) nv++;
    if (m->t[k].kind == VP_T_ULONG && m->t[k].v == 2) n2++;
    if (m->t[k].kind == VP_T_ULONG && m->t[k].v == (unsigned long)n) ncnt++;
    if (m->t[k].kind == VP_T_CSTR && m->t[k].p != 0 && ((const char *)m->t[k].p)[0] == 'm' && ((const char *)m->t[k].p)[1] == '.' && ((const char *)m->t[k].p)[2] == 'p') named = 1;
  }
  __CPROVER_assert(vp_rep[0].line > 0 && vp_rep[0].file != 0 && named, "[C04,C15] POST unfulfilled.the_report_carries_the_expectation_location_and_text");
  __CPROVER_assert(nv >= 1, "[C04] POST unfulfilled.the_report_gives_the_expected_parameter_value");
  __CPROVER_assert(n2 >= 1, "[C04] POST unfulfilled.the_report_gives_the_required_count");
  __CPROVER_assert(0, "REACH! c_unfulfilled");
}
/* C04: "when an expectation's lifetime ends - scope exit ..." also when the scope is left by an exception */
void c_unwound(void)
{
  SMALL(x0); struct OBS o; g_tracer_obj_ptr = 0;
  C04_UNW(x0, &o);
  __CPROVER_assert(o.ret == 1 && o.x == 1 && vp_exc == 0 && !vp_terminated, "[C04,C15] POST unwound.the_fatal_report_throws_and_the_block_is_left_through_the_handler");
  __CPROVER_assert(vp_rep_n == 2 && vp_rep[0].sev == 0, "[C04,C01,C15] POST unwound.first_the_fatal_no_match_report_for_the_other_function");
  __CPROVER_assert(vp_rep_n == 2 && vp_rep[1].sev == 1 && vp_rep[1].line > 0, "[C04,C15] POST unwound.the_unfulfilled_expectation_is_reported_once_non_fatally_while_the_scope_is_unwound");
  __CPROVER_assert(0, "REACH! c_unwound");
}
/* C08: THROW */
void c_throw(void)
{
  SMALL(k); struct OBS o; g_tracer_obj_ptr = 0;
  C08_THROW(k, &o);
  __CPROVER_assert(o.ret == 1 && o.extra == 0, "[C08] POST throw.the_caller_receives_the_exception_of_the_THROW_clause_and_no_value");
  __CPROVER_assert(o.x == k, "[C08] POST throw.the_side_effects_run_before_the_THROW_expression");
  __CPROVER_assert(o.y == 1, "[C08,C03] POST throw.a_call_that_throws_still_counts_as_handled");
  __CPROVER_assert(vp_rep_n == 0 && vp_exc == 0 && !vp_terminated, "[C08] POST throw.nothing_is_reported_and_the_expectation_is_released_quietly");
  __CPROVER_assert(0, "REACH! c_throw");
}
int main(void) { VP_ENTRY(); return 0; }
