/* h_print2.c - structural printing (C18): pairs, tuples and collections are printed element-wise as "{ a, b }" through
 * print() of every element (so null members print as nullptr and are never dereferenced), and a user-provided printer<T>
 * is used when it exists.  Token model: value tokens carry the formatting snapshot; library text is counted (nlit), the
 * separators of the tuple / collection printers are streamed as char const* data (their characters are read here). */
#define VP_TOK_CAP 24
#define VP_TOK_FMT 1
#include "vp_models.h"
#include "unit.h"
#include "vp_models_impl.h"
int up_calls; const void *up_arg; const void *up_os;
void USER_PRINTER(struct vp_os *o, struct S_vp_UP *p) { up_calls++; up_arg = p; up_os = o; VP_OS_PUT(o, VP_T_INT, 4242, 0); }
#include "unit.c"
int nondet_int(void); long nondet_long(void); char nondet_char(void); _Bool nondet_bool(void);
struct vp_os os; int f0; long w0; char c0; char buf[2], buf2[2]; int tgt;
static void any_stream(void) { buf[0] = 'x'; buf2[0] = 'y'; vpx_vp_os_ctor(&os); f0 = nondet_int(); w0 = nondet_long(); c0 = nondet_char(); os.flags = f0; os.width = w0; os.fill = c0; up_calls = 0; }
/* (the "earlier flags in effect again" sentence of C18 speaks about directly streamable and hex-dumped values only: the braces and
 * separators of a structural print are ordinary insertions, which consume a carried width as the standard says) */
static int n_kind(int kind) { int c = 0; for (int k = 0; k < VP_TOK_CAP; k++) if (k < os.n && os.t[k].kind == kind) c++; return c; }
static _Bool is_sep(int k) { return os.t[k].kind == VP_T_CSTR && (((const char *)os.t[k].p)[0] == 0 || ((const char *)os.t[k].p)[0] == ','); }

void q_pair(void) { any_stream(); PRINT_PAIR_T1 pr; pr.first = nondet_int(); pr.second = nondet_bool() ? &buf[0] : (char *)0; PRINT_PAIR(&os, &pr);
  __CPROVER_assert(!os.overflow && os.n == 1 + (pr.second != 0), "[C18] POST print.structural.pair_prints_both_members_element_wise");
  __CPROVER_assert(os.t[0].kind == VP_T_INT && (int)os.t[0].v == pr.first, "[C18] POST print.structural.pair_first_member_first");
  if (pr.second != 0) __CPROVER_assert(os.t[1].kind == VP_T_CSTR && os.t[1].p == pr.second, "[C18] POST print.structural.pair_second_member_streamed");
  __CPROVER_assert(os.nlit == 3 + (pr.second == 0), "[C18] POST print.structural.pair_braces_separator_and_nullptr_for_a_null_member");
  __CPROVER_assert(pr.second != 0, "REACH pair.null"); __CPROVER_assert(0, "REACH! q_pair"); }

void q_tuple(void) { any_stream(); PRINT_TUPLE_T1 tp; tp._0 = nondet_int(); tp._1 = nondet_bool() ? &tgt : (int *)0; tp._2 = nondet_bool() ? &buf[0] : (char *)0; PRINT_TUPLE(&os, &tp);
  /* data tokens: sep "", int, sep ", ", [pointer], sep ", ", [string] */
  __CPROVER_assert(!os.overflow && os.n == 3 + 1 + (tp._1 != 0) + (tp._2 != 0), "[C18] POST print.structural.tuple_prints_every_member_element_wise");
  __CPROVER_assert(is_sep(0) && ((const char *)os.t[0].p)[0] == 0 && os.t[1].kind == VP_T_INT && (int)os.t[1].v == tp._0 && is_sep(2) && ((const char *)os.t[2].p)[0] == ',', "[C18] POST print.structural.tuple_members_in_order_separated_by_commas");
  __CPROVER_assert(n_kind(VP_T_PTR) == (tp._1 != 0) && os.nlit == 2 + (tp._1 == 0) + (tp._2 == 0), "[C18] POST print.structural.tuple_null_members_print_nullptr_and_are_never_dereferenced");
  __CPROVER_assert(tp._1 != 0 || tp._2 != 0, "REACH tuple.all_null"); __CPROVER_assert(0, "REACH! q_tuple"); }

void q_collections(void) { any_stream(); struct vp_carr_int_3 a; for (int i = 0; i < 3; i++) a.a[i] = nondet_int(); PRINT_ARR(&os, &a);
  __CPROVER_assert(!os.overflow && n_kind(VP_T_INT) == 3, "[C18] POST print.structural.collection_prints_every_element");
  { int seen = 0; for (int k = 0; k < VP_TOK_CAP; k++) if (k < os.n && os.t[k].kind == VP_T_INT) { __CPROVER_assert((int)os.t[k].v == a.a[seen], "[C18] POST print.structural.collection_elements_in_order"); seen++; } }
  any_stream(); PRINT_SARR_T1 sa; sa.e[0] = nondet_bool() ? &buf[0] : (char *)0; sa.e[1] = nondet_bool() ? &buf2[0] : (char *)0; PRINT_SARR(&os, &sa);
  { int strs = 0; for (int k = 0; k < VP_TOK_CAP; k++) if (k < os.n && os.t[k].kind == VP_T_CSTR && !is_sep(k)) strs++;
    __CPROVER_assert(!os.overflow && strs == (sa.e[0] != 0) + (sa.e[1] != 0), "[C18] POST print.structural.collection_of_strings_null_elements_print_nullptr_and_are_never_dereferenced"); }
  __CPROVER_assert(sa.e[0] != 0 || sa.e[1] != 0, "REACH collections.all_null"); __CPROVER_assert(0, "REACH! q_collections"); }

void q_user_printer(void) { any_stream(); struct S_vp_UP u; u.v = nondet_int(); PRINT_UP(&os, &u);
  __CPROVER_assert(up_calls == 1 && up_arg == &u && up_os == &os, "[C18] POST print.structural.user_provided_printer_is_used_once_with_the_value");
  __CPROVER_assert(os.n == 1 && os.t[0].v == 4242, "[C18] POST print.structural.nothing_else_is_printed_for_a_type_with_a_printer");
  any_stream(); PRINT_NESTED_T1 np; np.first.v = nondet_int(); np.second = nondet_int(); PRINT_NESTED(&os, &np);
  __CPROVER_assert(up_calls == 1 && up_arg == &np.first, "[C18] POST print.structural.user_provided_printer_is_used_for_a_member_of_a_pair");
  __CPROVER_assert(os.n == 2 && os.t[0].v == 4242 && os.t[1].kind == VP_T_INT && (int)os.t[1].v == np.second, "[C18] POST print.structural.pair_with_a_printer_member_prints_element_wise");
  __CPROVER_assert(0, "REACH! q_user_printer"); }
int main(void) { VP_ENTRY(); return 0; }
