/* h_tracer.c - tracer nesting, trace_agent, reporter installation (C16, C17) */
#define VP_TOK_CAP 24
#include "vp_models.h"
#include "unit.h"
#include "vp_models_impl.h"
int nondet_int(void); unsigned long nondet_ulong(void); _Bool nondet_bool(void);
void VS_TRACE(struct S_tracer *self, char *file, unsigned long line, struct vp_string *call)
{
  if (vp_tr_n < VP_LOG_CAP) { vp_tr[vp_tr_n].tracer = self; vp_tr[vp_tr_n].file = file; vp_tr[vp_tr_n].line = line; vp_tr[vp_tr_n].msg = *call; }
  vp_tr_n++;
}
#include "unit.c"
char nm_file[2], nm_name[2];

/* all nestings of two tracer lifetimes around an optional already-installed outer tracer */
void t_nesting(void)
{
  struct TRACER *outer = nondet_bool() ? VP_NEW(struct TRACER) : 0;
  g_tracer_obj_ptr = outer;
  struct TRACER *t1 = VP_NEW(struct TRACER), *t2 = VP_NEW(struct TRACER);
  TRACER_CTOR(t1);
  __CPROVER_assert(*TRACER_OBJ() == t1, "[C17] POST tracer_ctor.becomes_the_active_tracer");
  TRACER_CTOR(t2);
  __CPROVER_assert(*TRACER_OBJ() == t2, "[C17] POST tracer_ctor.most_recently_constructed_is_active");
  TRACER_DTOR(t2); free(t2);
  __CPROVER_assert(*TRACER_OBJ() == t1, "[C17] POST tracer_dtor.previously_active_tracer_in_effect_again");
  TRACER_DTOR(t1); free(t1);
  __CPROVER_assert(*TRACER_OBJ() == outer, "[C17] POST tracer_dtor.outer_or_none_in_effect_again");
  struct TRACER *old = SET_TRACER(0);
  __CPROVER_assert(old == outer && *TRACER_OBJ() == 0, "[C17] POST set_tracer.returns_previous_and_installs");
  __CPROVER_assert(0, "REACH! nesting.end");
}

/* one call's trace agent: nothing without a tracer; exactly one record with the expectation's location otherwise */
void t_agent(void)
{
  struct TRACER *t = nondet_bool() ? VP_NEW(struct TRACER) : 0;
  if (t) t->vp_tag = VP_TAG_USER_S_tracer;
  struct TA *a = VP_NEW(struct TA);
  struct S_location l; l.file = nm_file; l.line = nondet_ulong();
  int x = nondet_int(); struct vp_tuple_vp_refw_int params; params._0.p = &x;
  int outcome = nondet_int(); __CPROVER_assume(0 <= outcome && outcome <= 2);
  TA_CTOR(a, l, nm_name, t);
  TA_TRACE_PARAMS(a, &params);
  int v = nondet_int();
  if (outcome == 0) { int *r = TA_TRACE_RETURN(a, &v); __CPROVER_assert(r == &v, "[C17,C08] POST trace_return.forwards_the_very_object"); }
  else { vp_cur = outcome == 1 ? VP_EXC_USER_STD : VP_EXC_USER_OTHER; TA_TRACE_EXCEPTION(a); vp_cur = 0; }
  __CPROVER_assert(vp_tr_n == 0, "[C17] POST trace_agent.nothing_delivered_before_the_call_ends");
  TA_DTOR(a);
  __CPROVER_assert(vp_tr_n == (t ? 1 : 0), "[C17] POST trace_agent.exactly_one_record_iff_tracer");
  if (t) {
    __CPROVER_assert(vp_tr[0].tracer == t && vp_tr[0].file == nm_file && vp_tr[0].line == l.line, "[C17] POST trace_agent.record_goes_to_that_tracer_with_the_expectation_location");
    struct vp_string *m = &vp_tr[0].msg;
    __CPROVER_assert(m->n >= 1 && m->t[0].kind == VP_T_CSTR && m->t[0].p == nm_name, "[C17] POST trace_agent.record_starts_with_the_expectation_text");
    /* ... then "param _1 = <actual argument>", then " -> <value>" or the exception note.  Integer tokens in order:
       the parameter index (1), the argument value, and for a returned value that value */
    long ints[3]; int n_int = 0; int what_pos = -1, arg_pos = -1;
    for (int k = 0; k < VP_TOK_CAP; k++) if (k < m->n) {
      if (m->t[k].kind == VP_T_INT) { if (n_int < 3) ints[n_int] = (long)m->t[k].v; if (n_int == 1) arg_pos = k; n_int++; }
      if (m->t[k].kind == VP_T_CSTR && m->t[k].p == (void *)&vp_stdexc_obj) what_pos = k;
    }
    __CPROVER_assert(n_int >= 2 && ints[0] == 1 && ints[1] == (long)x, "[C17] POST trace_agent.record_carries_the_actual_argument_at_position_1");
    if (outcome == 1) __CPROVER_assert(what_pos > arg_pos && n_int == 2, "[C17] POST trace_agent.std_exception_what_follows_the_arguments");
    if (outcome == 2) __CPROVER_assert(what_pos < 0 && n_int == 2, "[C17] POST trace_agent.non_std_exception_is_noted_without_what");
    if (outcome == 0) __CPROVER_assert(n_int == 3 && ints[2] == (long)v && what_pos < 0, "[C17] POST trace_agent.returned_value_follows_the_arguments");
    __CPROVER_assert(!m->overflow, "[C17] MODEL token capacity sufficient");
  }
  __CPROVER_assert(vp_exc == 0, "[C17] POST trace_agent.does_not_throw");
  __CPROVER_assert(!(t && outcome == 1), "REACH agent.std_exception");
  __CPROVER_assert(!(t && outcome == 2), "REACH agent.unknown_exception");
  __CPROVER_assert(!(t && outcome == 0), "REACH agent.value");
  __CPROVER_assert(0, "REACH! agent.end");
}

/* set_reporter returns the previous reporter(s); from then on reports go to the new ones only */
void r_set_reporter(void)
{
  g_reporter_obj_obj.id = 100; g_ok_reporter_obj_obj.id = 200;
  struct vp_function f1; f1.id = 101;
  struct vp_function old = SET_REPORTER1(f1);
  __CPROVER_assert(old.id == 100, "[C16] POST set_reporter.returns_previous_violation_reporter");
  int sev = nondet_int(); __CPROVER_assume(sev == 0 || sev == 1);
  SEND(sev, nm_file, 7, nm_name);
  __CPROVER_assert(vp_rep_n == 1 && vp_rep[0].fn == 101 && vp_rep[0].sev == sev && vp_rep[0].line == 7 && vp_rep[0].file == nm_file, "[C16,C15] POST set_reporter.violations_go_to_the_new_reporter_unchanged");
  vp_exc = 0;
  SEND_OK(nm_name);
  __CPROVER_assert(vp_ok_n == 1 && vp_ok[0].fn == 200 && vp_ok[0].msg == nm_name, "[C16] POST set_reporter.ok_reporter_untouched_by_the_one_argument_form");
  struct vp_function f2, o2; f2.id = 102; o2.id = 202;
  struct vp_pair_vp_function_vp_function olds = SET_REPORTER2(f2, o2);
  __CPROVER_assert(olds.first.id == 101 && olds.second.id == 200, "[C16] POST set_reporter.two_argument_form_returns_both_previous_reporters");
  SEND(1, nm_file, 8, nm_name); SEND_OK(nm_name);
  __CPROVER_assert(vp_rep_n == 2 && vp_rep[1].fn == 102 && vp_ok_n == 2 && vp_ok[1].fn == 202, "[C16] POST set_reporter.both_kinds_go_to_the_newly_installed_reporters_only");
  __CPROVER_assert(0, "REACH! set_reporter.end");
}
int main(void) { VP_ENTRY(); return 0; }
